#!/usr/bin/env python3
"""False-alarm test: apply each property-preserving change in an evaluation copy, run ALL quick
checks, and report every check that does not exit 0 (each one is either a false alarm of the
machinery or a change that is not in fact property-preserving: adjudicate by hand).
usage: benign_eval.py <copy K> <shard i> <of n> [patch-glob]      (default glob: /verif/benign/*/patch.diff)"""
import json, glob, os, subprocess, sys
K, i, n = sys.argv[1], int(sys.argv[2]), int(sys.argv[3])
pat = sys.argv[4] if len(sys.argv) > 4 else '/verif/benign/*/patch.diff'
REPO, VERIF = f'/tmp/eval{K}/repo', f'/tmp/eval{K}/verif'
CHECKS = [c['property_id'] for c in json.load(open('/verif/MANIFEST.json'))['checks']]
def sh(cmd, cwd=None):
    p = subprocess.run(cmd, shell=True, cwd=cwd, stdout=subprocess.PIPE, stderr=subprocess.STDOUT, text=True)
    return p.returncode, p.stdout
for idx, patch in enumerate(sorted(glob.glob(pat))):
    if idx % n != i: continue
    name = patch
    sh(f'git -C {REPO} checkout -- .')
    rc, o = sh(f'git -C {REPO} apply {patch}')
    if rc != 0:
        print(name, 'PATCH-DOES-NOT-APPLY', o[-200:]); sys.stdout.flush(); continue
    bad = {}
    for c in CHECKS:
        rc, o = sh(f'./check {c} quick', cwd=VERIF)
        if rc != 0:
            lines = [l for l in o.splitlines() if l.startswith('VIOLATION') or 'error' in l.lower()][:6]
            bad[c] = (rc, lines)
            # keep the replay files for inspection
            sh(f'mkdir -p /tmp/benign_alarms/{idx}_{c} && cp -r {VERIF}/replays/{c}* /tmp/benign_alarms/{idx}_{c}/ 2>/dev/null')
    sh(f'git -C {REPO} checkout -- .')
    print(name, 'QUIET' if not bad else 'ALARM ' + json.dumps(bad)); sys.stdout.flush()

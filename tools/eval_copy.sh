#!/bin/sh
# Create an isolated evaluation copy: /tmp/eval<K>/repo (git worktree of /repo HEAD) and
# /tmp/eval<K>/verif (copy of the committed /verif with every /repo/ path rewritten), so that
# several seeded changes can be evaluated in parallel without touching /repo.
# usage: tools/eval_copy.sh <K>          create (or refresh)
#        tools/eval_copy.sh <K> remove   delete it again
set -e
K="$1"
D="/tmp/eval$K"
if [ "${2:-}" = "remove" ]; then
    git -C /repo worktree remove --force "$D/repo" 2>/dev/null || true
    git -C /repo worktree prune
    rm -rf "$D"
    exit 0
fi
rm -rf "$D/verif"
mkdir -p "$D"
[ -d "$D/repo" ] || git -C /repo worktree add -q --detach "$D/repo" HEAD
git -C "$D/repo" checkout -q -- . && git -C "$D/repo" checkout -q --detach "$(git -C /repo rev-parse HEAD)"
mkdir -p "$D/verif"
git -C /verif archive HEAD | tar -x -C "$D/verif"
# also take uncommitted edits of the simulator sources
rsync -a --exclude build --exclude replays --exclude 'sim/target' /verif/sim /verif/shadow /verif/shim /verif/check /verif/known_findings.json "$D/verif/"
grep -rl "/repo/" "$D/verif/sim/src" "$D/verif/sim/Cargo.toml" "$D/verif/shadow/cli/Cargo.toml" "$D/verif/miri_c20/Cargo.toml" | xargs sed -i "s#/repo/#$D/repo/#g"
echo "$D ready"

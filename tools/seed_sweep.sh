#!/bin/sh
# run every quick check at several VERIF_SEED values on the unchanged tree; any VIOLATION or
# non-zero exit is printed. usage: tools/seed_sweep.sh "1 2 3" ["C01 C02 ..."]
SEEDS="${1:-1 2 3 4 5}"
PROPS="${2:-C01 C02 C03 C04 C05 C06 C07 C08 C09 C10 C11 C12 C13 C14 C15 C16 C17 C20}"
cd "$(dirname "$0")/.."
bad=0
for s in $SEEDS; do
  for p in $PROPS; do
    out=$(VERIF_SEED=$s ./check $p quick 2>&1); rc=$?
    if [ $rc -ne 0 ] || echo "$out" | grep -q "^VIOLATION"; then
      bad=$((bad+1)); echo "ALARM seed=$s prop=$p exit=$rc"; echo "$out" | grep -E "VIOLATION|oracle=|harness error" | head -6
    else
      echo "ok seed=$s prop=$p $(echo "$out" | tail -1 | cut -c1-110)"
    fi
  done
done
echo "sweep done: $bad alarms"

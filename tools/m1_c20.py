#!/usr/bin/env python3
"""Family m1 (C20): last owners of a key container dropped concurrently on 2-3 threads, real kestrel-crypto
under Miri's seeded thread scheduler (one -Zmiri-seed = one exactly repeatable interleaving).
usage: m1_c20.py run <quick|thorough> | replay <file>
Merges its coverage into evidence/C20.json (written just before by ksim). Exit 0 held / 1 violation / 2 harness."""
import json, os, subprocess, sys, time
from concurrent.futures import ThreadPoolExecutor

ROOT = os.path.dirname(os.path.dirname(os.path.abspath(__file__)))
CRATE = os.path.join(ROOT, "miri_c20")
ENV = dict(os.environ, CARGO_NET_OFFLINE="true", CARGO_TARGET_DIR=os.path.join(ROOT, "build", "miri_c20"))
ROUNDS = 9

def miri(seed, build_only=False):
    rate = (0.03, 0.1, 0.3)[seed % 3]  # swarm style: how often the scheduler pre-empts varies with the seed
    env = dict(ENV, MIRIFLAGS=f"-Zmiri-seed={seed} -Zmiri-preemption-rate={rate} -Zmiri-permissive-provenance -Zmiri-disable-stacked-borrows")
    p = subprocess.run(["cargo", "+nightly", "miri", "run", "--offline", "-q", "--", str(seed), str(ROUNDS)],
                       cwd=CRATE, env=env, capture_output=True, text=True, timeout=1800)
    out = p.stdout + p.stderr
    viol = [l for l in out.splitlines() if l.startswith("M1-VIOLATION")]
    stats = [l for l in out.splitlines() if l.startswith("M1-STATS")]
    return {"seed": seed, "violations": viol, "stats": stats[0] if stats else None,
            "ub": "Undefined Behavior" in out, "tail": out[-1500:]}

def parse(stats):
    return {k: int(v) for k, v in (kv.split("=") for kv in stats.split()[1:])}

def run(tier):
    t0 = time.time()
    base = int(os.environ.get("VERIF_SEED", "1"))
    n = 16 if tier == "quick" else 256
    seeds = [base * 1000 + i for i in range(n)]
    first = miri(seeds[0])  # also builds the crate and (first use) the Miri sysroot
    if first["stats"] is None and not first["violations"]:
        if first["ub"]:
            print("harness error: m1 (Miri) stopped with an interpreter error:\n" + first["tail"], file=sys.stderr)
            return 2
        print("warning: family m1 (Miri) could not run here; C20 is decided by family a7 alone\n" + first["tail"][-400:], file=sys.stderr)
        merge({"ran": False, "reason": first["tail"][-300:]}, 0, 0)
        return 0
    with ThreadPoolExecutor(max_workers=16) as ex:
        res = [first] + list(ex.map(miri, seeds[1:]))
    # a schedule without result is run once more; an interpreter error is a harness error, anything else
    # (a tool hiccup under load) drops that schedule with a warning and is counted in the evidence
    res = [miri(r["seed"]) if r["stats"] is None and not r["violations"] else r for r in res]
    bad = [r for r in res if r["stats"] is None and not r["violations"]]
    if any(r["ub"] for r in bad):
        r = [r for r in bad if r["ub"]][0]
        print("harness error: m1 (Miri) stopped with an interpreter error, seed %d:\n%s" % (r["seed"], r["tail"]), file=sys.stderr)
        return 2
    for r in bad:
        print("warning: m1 schedule %d gave no result twice and is left out:\n%s" % (r["seed"], r["tail"][-300:]), file=sys.stderr)
    res = [r for r in res if r not in bad]
    tot = {}
    sigs = set()
    for r in res:
        if r["stats"]:
            for k, v in parse(r["stats"]).items():
                if k == "order_sig":
                    sigs.add(v)
                elif k != "seed":
                    tot[k] = tot.get(k, 0) + v
    # determinism: the first seed twice, identical output lines
    again = miri(seeds[0])
    if again["stats"] is None and not again["violations"] and not again["ub"]:
        again = miri(seeds[0])
    det = (again["stats"], again["violations"]) == (first["stats"], first["violations"])
    viol = [r for r in res if r["violations"]]
    rc = 0
    for r in viol[:1]:
        path = os.path.join(ROOT, "replays", f"C20-m1-{r['seed']}.json")
        json.dump({"family": "m1", "property": "C20", "seed": r["seed"], "rounds": ROUNDS,
                   "violation": r["violations"][0], "cmd": f"tools/m1_c20.py replay {path}"}, open(path, "w"), indent=1)
        print(r["violations"][0])
        print(f"VIOLATION property=C20 replay={path}")
        rc = 1
    if not det:
        print("harness error: m1 is not deterministic for seed %d" % seeds[0], file=sys.stderr)
        rc = rc or 2
    cov = {"ran": True, "scheduler": "Miri interpreter, -Zmiri-seed=<s> -Zmiri-preemption-rate=0.03|0.1|0.3 by seed%3", "schedules": len(res), "schedules_without_result": len(bad),
           "seeds": [seeds[0], seeds[-1]], "rounds_per_schedule": ROUNDS, "distinct_interleavings": len(sigs), "interleaving_measure": "per schedule, the global order in which the 2-3 threads of each round began and ended their drop actions (tickets from one atomic counter), folded over the 9 rounds", "totals": tot, "deterministic_rerun_equal": det,
           "real_code": ["kestrel-crypto PayloadKey/PrivateKey constructors, Clone, Drop, Zeroize", "std::sync and the allocator interface as interpreted by Miri"],
           "stub": ["none (the watching allocator forwards to the system allocator)"],
           "sample": first["stats"], "violating_schedules": len(viol), "wall_s": round(time.time() - t0, 1)}
    merge(cov, len(res) * ROUNDS, len(viol))
    print(f"C20/m1: {len(res)} seeded schedules x {ROUNDS} concurrent-drop rounds under Miri, {tot.get('watched_blocks_released', 0)} watched heap blocks inspected at release, "
          f"{tot.get('inline_secrets_inspected', 0)} inline secrets inspected, {len(sigs)} distinct begin/end orders, {len(viol)} violating schedules, {time.time() - t0:.1f}s")
    return rc

def merge(cov, evals, viol):
    path = os.path.join(ROOT, "evidence", "C20.json")
    try:
        ev = json.load(open(path))
    except Exception:
        return
    ev["coverage"]["m1_concurrent_drop_miri"] = cov
    ev["coverage"]["evaluations"] = ev["coverage"].get("evaluations", 0) + evals
    ev["violations"] = ev.get("violations", 0) + viol
    ev.setdefault("assumptions", []).append("m1: Miri's scheduler preempts only between basic blocks and models sequentially consistent interleavings plus its weak-memory emulation; the secret's location is taken from as_bytes()")
    json.dump(ev, open(path, "w"), indent=1)

def replay(path):
    d = json.load(open(path))
    global ROUNDS
    ROUNDS = d.get("rounds", ROUNDS)
    r = miri(d["seed"])
    for l in r["violations"]:
        print(l)
    if r["violations"]:
        print(f"VIOLATION property=C20 replay={path}")
        return 1
    if r["stats"] is None:
        print("harness error:\n" + r["tail"], file=sys.stderr)
        return 2
    print("not reproduced: " + r["stats"])
    return 0

def warm():
    r = miri(1)  # builds the crate and, at first use, the Miri sysroot
    print("m1 warm-up: " + (r["stats"] or "Miri did not run here: " + r["tail"][-300:]))
    return 0

if __name__ == "__main__":
    if sys.argv[1] == "warm":
        sys.exit(warm())
    sys.exit(run(sys.argv[2]) if sys.argv[1] == "run" else replay(sys.argv[2]))

#!/usr/bin/env python3
"""Regression over the kept seeded changes: apply each patch in an evaluation copy, run the quick
checks that are recorded as catching it, and report any that no longer does.
usage: seeded_regress.py <copy K> <shard i> <of n> [--update]
With --update the property's own quick check is run as well and meta.json's detection record is
rewritten from what was observed in this run."""
import json, glob, os, subprocess, sys
K, i, n = sys.argv[1], int(sys.argv[2]), int(sys.argv[3])
UPDATE = '--update' in sys.argv
MAX_ID = int(os.environ.get('REGRESS_MAX_ID', '999'))   # only changes <ID>-<n> with n <= this
SKIP = set(l.split()[0] for f in os.environ.get('REGRESS_SKIP_LOGS', '').split(':') if f and os.path.exists(f) for l in open(f) if l.strip())
REPO, VERIF = f'/tmp/eval{K}/repo', f'/tmp/eval{K}/verif'
def sh(cmd, cwd=None):
    p = subprocess.run(cmd, shell=True, cwd=cwd, stdout=subprocess.PIPE, stderr=subprocess.STDOUT, text=True)
    return p.returncode, p.stdout
dirs = sorted(glob.glob('/verif/seeded/*/'))
for idx, d in enumerate(dirs):
    if idx % n != i: continue
    name = os.path.basename(d.rstrip('/'))
    if int(name.split('-')[1]) > MAX_ID or name in SKIP: continue
    meta = json.load(open(d + 'meta.json'))
    checks = [c for c in meta.get('detected_by', []) if not c.endswith('thorough')]
    own = name.split('-')[0]
    if UPDATE and own not in checks:
        checks.append(own)
    if not checks:
        print(name, 'SKIP (not caught by a quick check: %s)' % meta.get('detected_by')); sys.stdout.flush(); continue
    sh(f'git -C {REPO} checkout -- .')
    rc, o = sh(f'git -C {REPO} apply {d}patch.diff')
    if rc != 0:
        print(name, 'PATCH-DOES-NOT-APPLY', o[-200:]); continue
    res = {}
    for c in checks:
        rc, o = sh(f'./check {c} quick', cwd=VERIF)
        res[c] = rc
        if UPDATE:
            lines = [l for l in o.splitlines() if l.startswith('VIOLATION') or l.strip().startswith('oracle=')][:4]
            tail = [l for l in o.splitlines() if l.startswith(c + ':')][-1:] 
            meta.setdefault('detection', {})[c] = {'exit': rc, 'violation_lines': lines, 'tail': tail[0] if tail else ''}
    sh(f'git -C {REPO} checkout -- .')
    caught = [c for c, r in res.items() if r == 1]
    if UPDATE:
        thorough = [c for c in meta.get('detected_by', []) if c.endswith('thorough')]
        meta['detected_by'] = caught + [t for t in thorough if t.split('-')[0] not in caught]
        json.dump(meta, open(d + 'meta.json', 'w'), indent=1)
    print(name, 'OK' if caught else 'LOST', res); sys.stdout.flush()

#!/usr/bin/env python3
"""Print the markdown table of seeded changes and the checks that detect them."""
import json, glob, os
rows = []
for d in sorted(glob.glob('/verif/seeded/*/meta.json')):
    m = json.load(open(d))
    name = os.path.basename(os.path.dirname(d))
    det = m.get('detection', {})
    caught = ', '.join(c for c, v in sorted(det.items()) if v['exit'] == 1) or '-'
    missed = ', '.join(c for c, v in sorted(det.items()) if v['exit'] == 0) or '-'
    oracles = []
    for c, v in sorted(det.items()):
        for l in v.get('violation_lines', []):
            if 'oracle=' in l:
                o = l.split('oracle=')[1].split(' ')[0]
                if o not in oracles: oracles.append(o)
    summ = (m.get('summary') or '').replace('|', '/').replace('\n', ' ')
    if len(summ) > 150: summ = summ[:147] + '...'
    rows.append((name, 'yes' if m.get('confirmed') else 'NO', caught, missed, ', '.join(oracles[:3]), summ))
print('| change | confirmed | caught by | run but silent | oracle(s) | what it does |')
print('|---|---|---|---|---|---|')
for r in rows:
    print('| ' + ' | '.join(r) + ' |')

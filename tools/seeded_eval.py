#!/usr/bin/env python3
"""Confirm and evaluate one seeded change.

usage: seeded_eval.py <ID> <i> [--checks C01,C06,...] [--no-confirm] [--base /tmp/wt2] [--as 3]

 1. in the scratch worktree /tmp/wt/<ID> (reset to /repo's HEAD): apply patch<i>.diff, run the
    repository's test suite (must pass), paste/run the demonstration (must FAIL with the change
    and PASS without it);
 2. apply the patch to /repo, run the given quick checks of /verif (default: the property's own),
    undo it straight afterwards (git checkout -- .);
 3. write /verif/seeded/<ID>-<i>/{patch.diff, demo.*, meta.json}.
"""
import json, os, re, shutil, subprocess, sys

def sh(cmd, cwd=None, timeout=1800):
    p = subprocess.run(cmd, shell=True, cwd=cwd, stdout=subprocess.PIPE, stderr=subprocess.STDOUT, text=True, timeout=timeout)
    return p.returncode, p.stdout

def main():
    pid, i = sys.argv[1], sys.argv[2]
    checks = None
    confirm = True
    base = '/tmp/wt'
    save_as = None
    copy = None
    args = sys.argv[3:]
    while args:
        a = args.pop(0)
        if a == '--checks': checks = args.pop(0).split(',')
        elif a == '--no-confirm': confirm = False
        elif a == '--base': base = args.pop(0)          # directory holding <ID>/ and <ID>-out/
        elif a == '--as': save_as = args.pop(0)         # index under which it is kept in /verif/seeded
        elif a == '--copy': copy = args.pop(0)          # evaluate in /tmp/eval<K> (tools/eval_copy.sh) instead of /repo + /verif
    out = f'{base}/{pid}-out'
    wt = f'{base}/{pid}'
    patch = f'{out}/patch{i}.diff'
    demo = next((f'{out}/demo{i}.{e}' for e in ('rs', 'sh') if os.path.exists(f'{out}/demo{i}.{e}')), None)
    meta_in = json.load(open(f'{out}/meta{i}.json'))
    res = {'property': pid, 'summary': meta_in.get('summary'), 'needs': meta_in.get('needs'), 'files': meta_in.get('files'), 'author_ran': meta_in.get('ran')}
    REPO = f'/tmp/eval{copy}/repo' if copy else '/repo'
    VERIF = f'/tmp/eval{copy}/verif' if copy else '/verif'
    head = sh('git -C /repo rev-parse HEAD')[1].strip()
    if confirm:
        sh(f'git checkout -q -- . && git clean -fdq -e target && git checkout -q --detach {head}', cwd=wt)
        rc, o = sh(f'git apply {patch}', cwd=wt)
        res['patch_applies'] = rc == 0
        if rc != 0:
            res['error'] = o[-500:]
        rc, o = sh('cargo test --workspace --no-fail-fast --offline 2>&1 | grep -E "^test result|FAILED|error(\\[|:)"', cwd=wt)
        passed = sum(int(m) for m in re.findall(r'(\d+) passed', o))
        failed = sum(int(m) for m in re.findall(r'(\d+) failed', o))
        res['suite_with_change'] = {'passed': passed, 'failed': failed, 'compiles': 'error' not in o}
        # demonstration
        def run_demo():
            if demo.endswith('.sh'):
                rc, o = sh(f'bash {demo} {wt}', cwd=wt)
                return rc == 0, o[-400:]
            text = open(demo).read()
            m = re.search(r'(src/[\w/]+\.rs)', text)
            target = os.path.join(wt, m.group(1))
            names = re.findall(r'^[ \t]*#\[test\][ \t]*\n(?:[ \t]*#\[[^\]]*\][ \t]*\n)*[ \t]*(?:pub )?fn\s+(\w+)', text, re.M) or re.findall(r'#\[test\]\s*(?:#\[[^\]]*\]\s*)*fn\s+(\w+)', text)
            src = open(target).read()
            # a demo that brings its own module is appended; a bare #[test] goes inside the file's tests module
            if re.search(r'^\s*(pub\s+)?mod\s+\w+\s*\{', text, re.M):
                new = src + '\n' + text + '\n'
            else:
                k = src.rstrip().rfind('}')
                new = src[:k] + '\n' + text + '\n}\n'
            open(target, 'w').write(new)
            pkg = 'kestrel-crypto' if '/crypto/' in target else 'kestrel-cli'
            rc, o = sh(f'cargo test -p {pkg} --offline {names[0]} 2>&1 | tail -25', cwd=wt)
            ok = bool(re.search(r'test result: ok\. [1-9]', o))
            open(target, 'w').write(src)
            return ok, o[-600:]
        ok_with, o1 = run_demo()
        sh(f'git apply -R {patch}', cwd=wt)
        ok_without, o2 = run_demo()
        sh('git checkout -q -- .', cwd=wt)
        res['demo_passes_with_change'] = ok_with
        res['demo_passes_without_change'] = ok_without
        res['demo_output_with_change'] = o1
        res['confirmed'] = bool(res.get('patch_applies') and res['suite_with_change']['failed'] == 0 and res['suite_with_change']['passed'] >= 33 and (not ok_with) and ok_without)
    # detection
    checks = checks or [pid]
    rc, o = sh(f'git -C {REPO} status --short')
    assert o.strip() == '', REPO + ' is not clean: ' + o
    rc, o = sh(f'git -C {REPO} apply {patch}')
    det = {}
    try:
        if rc != 0:
            res['apply_to_repo_failed'] = o[-300:]
        else:
            for c in checks:
                rc, o = sh(f'./check {c} quick', cwd=VERIF)
                viols = [l for l in o.splitlines() if l.startswith('VIOLATION') or l.strip().startswith('oracle=')]
                det[c] = {'exit': rc, 'violation_lines': viols[:6], 'tail': o.splitlines()[-1][:200] if o else ''}
    finally:
        sh(f'git -C {REPO} checkout -- .')
        # evidence files were rewritten by runs on a modified tree: restore the committed ones
        if not copy:
            sh('git -C /verif checkout -- evidence')
    res['detection'] = det
    res['detected_by'] = [c for c, d in det.items() if d['exit'] == 1]
    d = f'/verif/seeded/{pid}-{save_as or i}'
    os.makedirs(d, exist_ok=True)
    shutil.copy(patch, f'{d}/patch.diff')
    if demo: shutil.copy(demo, f'{d}/demo.' + demo.rsplit('.', 1)[1])
    prev = {}
    if os.path.exists(f'{d}/meta.json'):
        prev = json.load(open(f'{d}/meta.json'))
    if not confirm:
        for k in ('patch_applies', 'suite_with_change', 'demo_passes_with_change', 'demo_passes_without_change', 'demo_output_with_change', 'confirmed'):
            if k in prev: res[k] = prev[k]
        old = prev.get('detection', {})
        old.update(det)
        res['detection'] = old
        res['detected_by'] = [c for c, dd in old.items() if dd['exit'] == 1]
    json.dump(res, open(f'{d}/meta.json', 'w'), indent=1)
    print(pid, save_as or i, 'confirmed=%s' % res.get('confirmed'), 'detected_by=%s' % res['detected_by'], {c: v['exit'] for c, v in res['detection'].items()})

main()

#!/bin/sh
# Evaluate a whole round of seeded changes in parallel, each job in its own evaluation copy.
# usage: tools/seeded_eval_parallel.sh <base dir, e.g. /tmp/wt3> <index offset, e.g. 4> <jobs> [first copy number, default 1]
BASE="$1"; OFF="$2"; JOBS="${3:-4}"; FIRST="${4:-1}"
cd "$(dirname "$0")/.."
for k in $(seq 1 "$JOBS"); do c=$((k + FIRST - 1)); tools/eval_copy.sh "$c" >/dev/null || exit 2; mkdir -p /tmp/eval$c/verif/build/cache; cp build/cache/* /tmp/eval$c/verif/build/cache/ 2>/dev/null; done
ls -d "$BASE"/*-out | sed 's#.*/##; s#-out##' | while read id; do for i in 1 2 3 4; do [ -f "$BASE/$id-out/patch$i.diff" ] && echo "$id $i"; done; done > /tmp/seeded_jobs.txt
# both changes of one property share a scratch worktree: keep them in the same job
n=0; last=""
while read id i; do
  if [ "$id" != "$last" ]; then n=$((n+1)); last="$id"; fi
  k=$(( (n - 1) % JOBS + 1 ))
  echo "$id $i $k"
done < /tmp/seeded_jobs.txt > /tmp/seeded_jobs_k.txt
for k in $(seq 1 "$JOBS"); do
  ( grep " $k\$" /tmp/seeded_jobs_k.txt | while read id i kk; do
      python3 tools/seeded_eval.py "$id" "$i" --base "$BASE" --as $((i + OFF)) --copy "$((k + FIRST - 1))" 2>&1 | tail -1
    done ) > "/tmp/seeded_par_$k.log" 2>&1 &
done
wait
cat /tmp/seeded_par_*.log | sort

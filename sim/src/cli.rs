//! World B: the real `kestrel` binary (built from the working tree of src/cli and src/crypto
//! through /verif/shadow/cli) run as child processes inside a fresh sandbox directory.
//! Everything the process sees is decided here: argv, environment, stdin/stdout wiring, the
//! directory contents, seeded entropy, no controlling terminal, and (family B5) the results
//! of its read/write/open system calls through the LD_PRELOAD shim.

use crate::rng::fnv64;
use std::io::{Read, Write};
use std::os::unix::process::CommandExt;
use std::path::PathBuf;
use std::process::{Command, Stdio};
use std::sync::atomic::{AtomicU64, Ordering};

static SANDBOX_N: AtomicU64 = AtomicU64::new(0);

pub fn kestrel_bin() -> String {
    format!("{}/build/cli/release/kestrel", crate::root())
}

pub fn shim_path() -> String {
    format!("{}/build/shim/iofault.so", crate::root())
}

pub struct Sandbox {
    pub dir: PathBuf,
}

impl Sandbox {
    pub fn new(tag: &str) -> Sandbox {
        let n = SANDBOX_N.fetch_add(1, Ordering::Relaxed);
        let dir = PathBuf::from(format!("{}/build/sandbox/{}-{}-{}", crate::root(), tag, std::process::id(), n));
        let _ = std::fs::remove_dir_all(&dir);
        std::fs::create_dir_all(&dir).expect("sandbox dir");
        // every child gets HOME=<sandbox>/home, like any process started from a login shell
        std::fs::create_dir_all(dir.join("home")).expect("sandbox home");
        Sandbox { dir }
    }
    pub fn write(&self, name: &str, data: &[u8]) {
        std::fs::write(self.dir.join(name), data).expect("sandbox write");
    }
    pub fn read(&self, name: &str) -> Option<Vec<u8>> {
        std::fs::read(self.dir.join(name)).ok()
    }
    pub fn exists(&self, name: &str) -> bool {
        self.dir.join(name).exists()
    }
    /// sorted (relative path, length, content hash) of every file and directory below the sandbox: the "disk" state
    pub fn listing(&self) -> Vec<(String, u64, u64)> {
        fn walk(base: &std::path::Path, dir: &std::path::Path, v: &mut Vec<(String, u64, u64)>, depth: u32) {
            if let Ok(rd) = std::fs::read_dir(dir) {
                for e in rd.flatten() {
                    let p = e.path();
                    let name = p.strip_prefix(base).unwrap_or(&p).to_string_lossy().to_string();
                    let is_dir = e.file_type().map(|t| t.is_dir()).unwrap_or(false);
                    if is_dir {
                        v.push((format!("{}/", name), 0, 0));
                        if depth < 4 {
                            walk(base, &p, v, depth + 1);
                        }
                    } else {
                        let data = std::fs::read(&p).unwrap_or_default();
                        v.push((name, data.len() as u64, fnv64(&data)));
                    }
                }
            }
        }
        let mut v = vec![];
        walk(&self.dir, &self.dir, &mut v, 0);
        v.sort();
        v
    }
}

impl Drop for Sandbox {
    fn drop(&mut self) {
        let _ = std::fs::remove_dir_all(&self.dir);
    }
}

#[derive(Clone, Debug)]
pub enum Stdin {
    Null,
    /// a regular file of the sandbox redirected to stdin
    File(String),
    /// a pipe pre-filled with these bytes (<= 64 KiB), then closed
    Pipe(Vec<u8>),
    /// a pipe into which these pieces are written one at a time, each only once the child is blocked
    /// in read(0) (seen in /proc/<pid>/syscall; after 2 s at the latest), then closed: what a person
    /// typing or a slow producer looks like to the child
    Pieces(Vec<Vec<u8>>),
    /// the controlling pseudo-terminal itself (isatty(stdin) is true for the child): an interactive
    /// session; data then has to come from a file argument
    Tty,
}

#[derive(Clone, Debug)]
pub enum Stdout {
    /// captured through a pipe
    Capture,
    /// redirected to a file of the sandbox (created/truncated by the "shell")
    File(String),
    /// /dev/full: every write fails with ENOSPC
    Full,
    /// a pipe whose read end is already closed: every write fails with EPIPE
    ClosedPipe,
    /// a pseudo-terminal: isatty(stdout) is true for the child; output is captured from the master side
    Pty,
}

#[derive(Clone, Debug)]
pub struct Invocation {
    pub args: Vec<Vec<u8>>,
    pub env: Vec<(String, String)>,
    pub stdin: Stdin,
    pub stdout: Stdout,
    /// Some = KESTREL_VERIF_ENTROPY_SEED (deterministic run); None = the real OS RNG
    pub entropy_seed: Option<u64>,
    /// LD_PRELOAD fault plan (family B5)
    pub fault_plan: Option<String>,
    /// wall-clock limit for the child
    pub timeout_s: u64,
    /// sample the child's VmHWM while it runs
    pub sample_rss: bool,
    /// environment variables whose values are raw bytes (not necessarily UTF-8)
    pub env_bytes: Vec<(String, Vec<u8>)>,
    /// a named pipe of the sandbox and the bytes a writer feeds into it once the child has started
    /// (at most 60000 bytes, so that the writer never blocks)
    pub fifo: Option<(String, Vec<u8>)>,
    /// with `fifo`: once everything has been fed and drained - but BEFORE the writer closes the pipe, so
    /// the child cannot know the input has ended - wait (at most 15 s) until this file of the sandbox
    /// has reached this size; Finished::grew_before_eof says whether it did
    pub watch_before_eof: Option<(String, u64)>,
    /// give the child a controlling pseudo-terminal and let it ask for its passwords there instead of
    /// reading them from the environment: `--env-pass`, KESTREL_PASSWORD and KESTREL_NEW_PASSWORD are
    /// taken out of the invocation and the same passwords are typed on the terminal (see tty_lines).
    /// Ignored (the environment is used) when a password cannot be typed on a terminal line.
    pub pass_via_tty: bool,
}

/// The lines to type on the controlling terminal for an invocation whose passwords were given through
/// the environment, or None if they cannot be typed (control characters would be interpreted by the
/// line discipline; a canonical-mode line holds at most 4095 bytes).
pub fn tty_lines(inv: &Invocation) -> Option<Vec<u8>> {
    let get = |k: &str| inv.env.iter().rev().find(|(n, _)| n == k).map(|(_, v)| v.clone());
    if !inv.args.iter().any(|a| a == b"--env-pass") {
        return None;
    }
    let pw = get("KESTREL_PASSWORD")?;
    let is_change = inv.args.iter().any(|a| a == b"change-pass");
    let lines: Vec<String> = if is_change {
        let np = get("KESTREL_NEW_PASSWORD")?;
        vec![pw, np.clone(), np.clone(), np.clone(), np]
    } else {
        // one prompt (unlock, decrypt) or a prompt and its confirmation (generate, password encrypt);
        // two more for a tool that asks again. A line that is never read stays in the terminal's queue
        // and is discarded with it
        vec![pw.clone(), pw.clone(), pw.clone(), pw]
    };
    let mut out = vec![];
    for l in &lines {
        if l.len() > 1000 || l.bytes().any(|b| b < 0x20 || b == 0x7f) {
            return None;
        }
        out.extend_from_slice(l.as_bytes());
        out.push(b'\n');
    }
    Some(out)
}

impl Invocation {
    pub fn new(args: &[&str]) -> Invocation {
        Invocation { args: args.iter().map(|a| a.as_bytes().to_vec()).collect(), env: vec![], stdin: Stdin::Null, stdout: Stdout::Capture, entropy_seed: Some(1), fault_plan: None, timeout_s: 60, sample_rss: false, env_bytes: vec![], fifo: None, watch_before_eof: None, pass_via_tty: false }
    }
    pub fn env(mut self, k: &str, v: &str) -> Self {
        self.env.push((k.to_string(), v.to_string()));
        self
    }
}

#[derive(Clone, Debug, PartialEq)]
pub enum Status {
    Exit(i32),
    Signal(i32),
    Timeout,
    SpawnError(String),
}

#[derive(Clone, Debug)]
pub struct Finished {
    pub status: Status,
    pub stdout: Vec<u8>,
    pub stderr: Vec<u8>,
    pub shim_log: Vec<u8>,
    /// peak resident set size of the child's own (post-exec) address space in KiB, sampled from
    /// /proc/<pid>/status VmHWM while it runs (only when Invocation::sample_rss); 0 if unknown.
    /// wait4's ru_maxrss is useless here: it includes the forked copy of the simulator before exec.
    pub max_rss_kib: i64,
    /// see Invocation::watch_before_eof (None when not asked for)
    pub grew_before_eof: Option<(bool, u64)>,
}

impl Finished {
    pub fn stderr_text(&self) -> String {
        String::from_utf8_lossy(&self.stderr).to_string()
    }
    pub fn has_error_line(&self) -> bool {
        self.stderr_text().lines().any(|l| l.starts_with("Error:"))
    }
    pub fn panicked(&self) -> bool {
        self.stderr_text().contains("panicked")
    }
    pub fn digest(&self) -> u64 {
        let mut v = format!("{:?}|", self.status).into_bytes();
        v.extend_from_slice(&self.stdout);
        v.push(0);
        // a Rust panic message carries the OS thread id: not part of the behaviour
        let se = self.stderr_text();
        let se: String = se
            .lines()
            .map(|l| if l.starts_with("thread '") && l.contains("panicked at") { "thread panicked".to_string() } else { l.to_string() })
            .collect::<Vec<_>>()
            .join("\n");
        v.extend_from_slice(se.as_bytes());
        v.push(0);
        // a panic message is written to stderr in pieces, one of which is the OS thread id: the sizes of
        // those writes vary with the number of digits of the id, so stderr writes are hashed without sizes
        let log = String::from_utf8_lossy(&self.shim_log);
        for l in log.lines() {
            if l.starts_with("w err") && !l.contains("inject") {
                v.extend_from_slice(b"w err\n");
            } else {
                v.extend_from_slice(l.as_bytes());
                v.push(b'\n');
            }
        }
        fnv64(&v)
    }
}

pub fn run(sb: &Sandbox, inv: &Invocation) -> Finished {
    use std::os::unix::ffi::OsStrExt;
    let mut cmd = Command::new(kestrel_bin());
    let typed: Option<Vec<u8>> = if inv.pass_via_tty { tty_lines(inv) } else { None };
    for a in &inv.args {
        if typed.is_some() && a == b"--env-pass" {
            continue;
        }
        cmd.arg(std::ffi::OsStr::from_bytes(a));
    }
    cmd.current_dir(&sb.dir);
    cmd.env_clear();
    for (k, v) in &inv.env {
        if typed.is_some() && (k == "KESTREL_PASSWORD" || k == "KESTREL_NEW_PASSWORD") {
            continue;
        }
        cmd.env(k, v);
    }
    // the controlling terminal: the passwords are typed before the child starts (canonical mode keeps
    // them as separate lines in the input queue; echo is off so nothing is reflected to the master)
    let mut ctty: Option<(std::fs::File, std::fs::File)> = None;
    let no_lines: Vec<u8> = vec![];
    if typed.is_some() || matches!(inv.stdin, Stdin::Tty) {
        let lines = typed.as_ref().unwrap_or(&no_lines);
        use std::os::unix::io::FromRawFd;
        let (mut m, mut sl) = (0i32, 0i32);
        let rc = unsafe { libc::openpty(&mut m, &mut sl, std::ptr::null_mut(), std::ptr::null_mut(), std::ptr::null_mut()) };
        if rc != 0 {
            panic!("harness: openpty failed: {}", std::io::Error::last_os_error());
        }
        unsafe {
            libc::fcntl(m, libc::F_SETFD, libc::FD_CLOEXEC);
            libc::fcntl(sl, libc::F_SETFD, libc::FD_CLOEXEC);
            let mut t: libc::termios = std::mem::zeroed();
            if libc::tcgetattr(sl, &mut t) == 0 {
                t.c_lflag &= !libc::ECHO;
                libc::tcsetattr(sl, libc::TCSANOW, &t);
            }
            let n = libc::write(m, lines.as_ptr() as *const libc::c_void, lines.len());
            if n != lines.len() as isize {
                panic!("harness: cannot type the passwords on the pseudo-terminal");
            }
        }
        ctty = Some((unsafe { std::fs::File::from_raw_fd(m) }, unsafe { std::fs::File::from_raw_fd(sl) }));
    }
    for (k, v) in &inv.env_bytes {
        cmd.env(k, std::ffi::OsStr::from_bytes(v));
    }
    if !inv.env.iter().any(|(k, _)| k == "HOME") {
        cmd.env("HOME", sb.dir.join("home"));
    }
    // a FIFO: the harness holds it open for reading and writing (so that neither side ever blocks on
    // open), puts the data in, and closes its descriptors once the child has drained the pipe or exited
    let mut fifo_fds: Option<(i32, i32)> = None;
    let mut fifo_fed: usize = 0;
    if let Some((name, data)) = &inv.fifo {
        let path = std::ffi::CString::new(sb.dir.join(name).to_string_lossy().as_bytes()).unwrap();
        unsafe {
            libc::mkfifo(path.as_ptr(), 0o600);
            let keep = libc::open(path.as_ptr(), libc::O_RDWR | libc::O_CLOEXEC);
            let w = libc::open(path.as_ptr(), libc::O_WRONLY | libc::O_NONBLOCK | libc::O_CLOEXEC);
            if keep >= 0 && w >= 0 {
                let d = &data[..data.len().min(60000)];
                let n = libc::write(w, d.as_ptr() as *const libc::c_void, d.len());
                fifo_fed = if n > 0 { n as usize } else { 0 };
                fifo_fds = Some((keep, w));
            }
        }
    }
    if let Some(s) = inv.entropy_seed {
        cmd.env("KESTREL_VERIF_ENTROPY_SEED", s.to_string());
    }
    let shim_log_path = sb.dir.join(".shim.log");
    if let Some(plan) = &inv.fault_plan {
        cmd.env("LD_PRELOAD", shim_path());
        cmd.env("KSIM_FAULT_PLAN", plan);
        cmd.env("KSIM_FAULT_LOG", &shim_log_path);
    }
    match &inv.stdin {
        Stdin::Null => {
            cmd.stdin(Stdio::null());
        }
        Stdin::File(name) => match std::fs::File::open(sb.dir.join(name)) {
            Ok(f) => {
                cmd.stdin(Stdio::from(f));
            }
            Err(e) => return Finished { status: Status::SpawnError(format!("stdin file: {}", e)), stdout: vec![], stderr: vec![], shim_log: vec![], max_rss_kib: 0, grew_before_eof: None },
        },
        Stdin::Pipe(_) | Stdin::Pieces(_) => {
            cmd.stdin(Stdio::piped());
        }
        Stdin::Tty => match ctty.as_ref().and_then(|(_, sl)| sl.try_clone().ok()) {
            Some(sl) => {
                cmd.stdin(Stdio::from(sl));
            }
            None => panic!("harness: no pseudo-terminal for stdin"),
        },
    }
    let mut closed_pipe_keep: Option<std::fs::File> = None;
    let mut pty_master: Option<std::fs::File> = None;
    match &inv.stdout {
        Stdout::Capture => {
            cmd.stdout(Stdio::piped());
        }
        Stdout::File(name) => {
            let f = std::fs::File::create(sb.dir.join(name)).expect("stdout file");
            cmd.stdout(Stdio::from(f));
        }
        Stdout::Full => {
            let f = std::fs::OpenOptions::new().write(true).open("/dev/full").expect("/dev/full");
            cmd.stdout(Stdio::from(f));
        }
        Stdout::Pty => {
            use std::os::unix::io::FromRawFd;
            let (mut m, mut sl) = (0i32, 0i32);
            let rc = unsafe { libc::openpty(&mut m, &mut sl, std::ptr::null_mut(), std::ptr::null_mut(), std::ptr::null_mut()) };
            if rc != 0 {
                return Finished { status: Status::SpawnError("openpty failed".into()), stdout: vec![], stderr: vec![], shim_log: vec![], max_rss_kib: 0, grew_before_eof: None };
            }
            unsafe {
                libc::fcntl(m, libc::F_SETFD, libc::FD_CLOEXEC);
            }
            pty_master = Some(unsafe { std::fs::File::from_raw_fd(m) });
            cmd.stdout(Stdio::from(unsafe { std::fs::File::from_raw_fd(sl) }));
        }
        Stdout::ClosedPipe => {
            let mut fds = [0i32; 2];
            unsafe {
                libc::pipe2(fds.as_mut_ptr(), libc::O_CLOEXEC);
                libc::close(fds[0]);
            }
            use std::os::unix::io::FromRawFd;
            let w = unsafe { std::fs::File::from_raw_fd(fds[1]) };
            closed_pipe_keep = w.try_clone().ok();
            cmd.stdout(Stdio::from(w));
        }
    }
    cmd.stderr(Stdio::piped());
    unsafe {
        // no controlling terminal (unless one is asked for): /dev/tty cannot be opened, so a password
        // prompt can never block
        let ctty_fd: Option<i32> = ctty.as_ref().map(|(_, sl)| {
            use std::os::unix::io::AsRawFd;
            sl.as_raw_fd()
        });
        cmd.pre_exec(move || {
            libc::setsid();
            if let Some(fd) = ctty_fd {
                if libc::ioctl(fd, libc::TIOCSCTTY, 0) != 0 {
                    return Err(std::io::Error::last_os_error());
                }
            }
            Ok(())
        });
    }
    // fork can fail transiently on a loaded machine (EAGAIN): retry, and if it keeps failing this
    // is a fault of the environment, never a verdict about kestrel -> harness error (exit 2)
    let mut child = {
        let mut tries = 0;
        loop {
            match cmd.spawn() {
                Ok(c) => break c,
                Err(e) => {
                    tries += 1;
                    if tries >= 5 {
                        panic!("harness: cannot start the kestrel child process: {}", e);
                    }
                    std::thread::sleep(std::time::Duration::from_millis(200 * tries));
                }
            }
        }
    };
    drop(closed_pipe_keep);
    if let Stdin::Pipe(data) = &inv.stdin {
        if let Some(mut si) = child.stdin.take() {
            let _ = si.write_all(&data[..data.len().min(65536)]);
        }
    }
    let mut pieces_left: std::collections::VecDeque<Vec<u8>> = match &inv.stdin {
        Stdin::Pieces(p) => p.iter().cloned().collect(),
        _ => Default::default(),
    };
    let mut pieces_pipe = if matches!(inv.stdin, Stdin::Pieces(_)) { child.stdin.take() } else { None };
    if pieces_left.is_empty() {
        pieces_pipe = None;
    }
    let mut last_piece_at = std::time::Instant::now();
    // drain stdout/stderr on helper threads (pipes are small), wait with a deadline
    let so = child.stdout.take();
    let se = child.stderr.take();
    // the Command still holds the slave side of a pty: drop it so that the master sees EOF (EIO)
    // when the child exits
    drop(cmd);
    let t_out = std::thread::spawn(move || {
        let mut v = vec![];
        if let Some(mut s) = so {
            read_capped(&mut s, &mut v);
        }
        if let Some(mut m) = pty_master {
            let mut buf = [0u8; 4096];
            loop {
                match m.read(&mut buf) {
                    Ok(0) | Err(_) => break,
                    Ok(n) => v.extend_from_slice(&buf[..n]),
                }
            }
            // a terminal translates \n to \r\n on output
            v = String::from_utf8_lossy(&v).replace("\r\n", "\n").into_bytes();
        }
        v
    });
    // what the child prints on its controlling terminal (prompts) is drained and dropped; the slave
    // side stays open here until the child has been reaped so that typed lines are never lost
    let (ctty_master, ctty_slave) = match ctty {
        Some((m, sl)) => (Some(m), Some(sl)),
        None => (None, None),
    };
    let t_tty = ctty_master.map(|mut m| {
        std::thread::spawn(move || {
            let mut buf = [0u8; 4096];
            loop {
                match m.read(&mut buf) {
                    Ok(0) | Err(_) => break,
                    Ok(_) => {}
                }
            }
        })
    });
    let t_err = std::thread::spawn(move || {
        let mut v = vec![];
        if let Some(mut s) = se {
            read_capped(&mut s, &mut v);
        }
        v
    });
    let deadline = std::time::Instant::now() + std::time::Duration::from_secs(inv.timeout_s);
    let pid = child.id() as i32;
    let mut max_rss_kib = 0i64;
    let mut grew_before_eof: Option<(bool, u64)> = None;
    // wait4 instead of Child::try_wait: it also returns the child's resource usage
    let status = loop {
        let mut st: i32 = 0;
        let mut ru: libc::rusage = unsafe { std::mem::zeroed() };
        if let (Some((_, w)), Some((_, data))) = (fifo_fds, &inv.fifo) {
            // keep feeding (non-blocking) while data remains
            while fifo_fed < data.len() {
                let d = &data[fifo_fed..(fifo_fed + 65536).min(data.len())];
                let n = unsafe { libc::write(w, d.as_ptr() as *const libc::c_void, d.len()) };
                if n <= 0 {
                    break;
                }
                fifo_fed += n as usize;
            }
        }
        if let Some((keep, w)) = fifo_fds {
            // once the pipe is empty the child has everything: closing both descriptors gives it EOF
            let mut pending: libc::c_int = 0;
            unsafe { libc::ioctl(keep, libc::FIONREAD, &mut pending) };
            let all_fed = inv.fifo.as_ref().map(|(_, d)| fifo_fed >= d.len()).unwrap_or(true);
            if pending == 0 && all_fed {
                if let (Some((name, min)), None) = (&inv.watch_before_eof, grew_before_eof) {
                    // the child has taken all input but cannot know it is the end: what it has produced
                    // so far must already be (nearly) everything
                    let t0 = std::time::Instant::now();
                    let mut size = 0u64;
                    let mut ok = false;
                    while t0.elapsed().as_secs() < 15 {
                        size = std::fs::metadata(sb.dir.join(name)).map(|m| m.len()).unwrap_or(0);
                        if size >= *min {
                            ok = true;
                            break;
                        }
                        std::thread::sleep(std::time::Duration::from_millis(5));
                    }
                    grew_before_eof = Some((ok, size));
                }
                unsafe {
                    libc::close(w);
                    libc::close(keep);
                }
                fifo_fds = None;
            }
        }
        if pieces_pipe.is_some() {
            // x86-64: system call 0 is read; its first argument is the descriptor
            // (asleep inside that call, and the pipe is empty: everything fed so far has been taken)
            let in_read0 = std::fs::read_to_string(format!("/proc/{}/syscall", pid)).map(|t| t.starts_with("0 0x0 ")).unwrap_or(false);
            let asleep = std::fs::read_to_string(format!("/proc/{}/stat", pid)).map(|t| t.rsplit(')').next().map(|r| r.trim_start().starts_with('S')).unwrap_or(false)).unwrap_or(false);
            let mut pending: libc::c_int = 0;
            if let Some(si) = pieces_pipe.as_ref() {
                use std::os::unix::io::AsRawFd;
                unsafe { libc::ioctl(si.as_raw_fd(), libc::FIONREAD, &mut pending) };
            }
            if (in_read0 && asleep && pending == 0) || last_piece_at.elapsed().as_millis() > 2000 {
                if let Some(piece) = pieces_left.pop_front() {
                    if let Some(si) = pieces_pipe.as_mut() {
                        let _ = si.write_all(&piece[..piece.len().min(60000)]);
                        let _ = si.flush();
                    }
                    last_piece_at = std::time::Instant::now();
                }
                if pieces_left.is_empty() {
                    pieces_pipe = None; // closes the pipe: end of input
                }
            }
        }
        if inv.sample_rss {
            if let Ok(t) = std::fs::read_to_string(format!("/proc/{}/status", pid)) {
                if let Some(l) = t.lines().find(|l| l.starts_with("VmHWM:")) {
                    if let Some(k) = l.split_whitespace().nth(1).and_then(|x| x.parse::<i64>().ok()) {
                        max_rss_kib = max_rss_kib.max(k);
                    }
                }
            }
        }
        let r = unsafe { libc::wait4(pid, &mut st, libc::WNOHANG, &mut ru) };
        if r == pid {
            break if libc::WIFEXITED(st) {
                Status::Exit(libc::WEXITSTATUS(st))
            } else if libc::WIFSIGNALED(st) {
                Status::Signal(libc::WTERMSIG(st))
            } else {
                Status::Signal(-1)
            };
        } else if r == 0 {
            if std::time::Instant::now() > deadline {
                unsafe {
                    libc::kill(pid, libc::SIGKILL);
                    libc::waitpid(pid, &mut st, 0);
                }
                break Status::Timeout;
            }
            std::thread::sleep(std::time::Duration::from_micros(if inv.sample_rss { 1500 } else { 300 }));
        } else {
            break Status::SpawnError(format!("wait4: {}", std::io::Error::last_os_error()));
        }
    };
    if let Some((keep, w)) = fifo_fds {
        unsafe {
            libc::close(w);
            libc::close(keep);
        }
    }
    // the child has been reaped here; do not let Child try again
    std::mem::forget(child);
    drop(ctty_slave);
    if let Some(t) = t_tty {
        let _ = t.join();
    }
    let stdout = t_out.join().unwrap_or_default();
    let stderr = t_err.join().unwrap_or_default();
    let shim_log = std::fs::read(&shim_log_path).unwrap_or_default();
    let _ = std::fs::remove_file(&shim_log_path);
    Finished { status, stdout, stderr, shim_log, max_rss_kib, grew_before_eof }
}

/// Read a child's output to its end but keep at most 64 MiB of it (a child that prints in an endless
/// loop must neither block on a full pipe nor exhaust the simulator's memory before its deadline).
fn read_capped(src: &mut dyn Read, v: &mut Vec<u8>) {
    const CAP: usize = 64 << 20;
    let mut buf = [0u8; 65536];
    loop {
        match src.read(&mut buf) {
            Ok(0) | Err(_) => break,
            Ok(n) => {
                if v.len() < CAP {
                    let k = n.min(CAP - v.len());
                    v.extend_from_slice(&buf[..k]);
                }
            }
        }
    }
}

/// A keyring text written by the harness (reference lock), entries in the given order.
pub struct KeySpec {
    pub name: String,
    pub sk: [u8; 32],
    pub password: Option<String>, // None = public key only
    pub salt: [u8; 32],
}

pub fn keyring_text(keys: &[KeySpec]) -> String {
    use crate::refmodel::{keyring as rk, prims as rp};
    let mut t = String::new();
    for (i, k) in keys.iter().enumerate() {
        if i > 0 {
            t.push('\n');
        }
        t.push_str(&format!("[Key]\nName = {}\nPublicKey = {}\n", k.name, rk::encode_pk(&rp::x25519_base(&k.sk))));
        if let Some(pw) = &k.password {
            let key = crate::ops::ref_scrypt_cached(pw.as_bytes(), &k.salt);
            t.push_str(&format!("PrivateKey = {}\n", rk::lock_with_key(&k.sk, &key, &k.salt)));
        }
    }
    t
}

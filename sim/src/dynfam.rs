//! Type-erased families so main can dispatch by name.
use crate::engine::*;
use serde_json::Value;

pub trait DynFamily: Sync {
    fn name(&self) -> &'static str;
    fn properties(&self) -> &'static [&'static str];
    fn budget(&self, tier: Tier, property: &str) -> u64;
    fn run(&self, cfg: &RunCfg) -> Agg;
    fn replay(&self, scn: &Value) -> Result<RunOut, String>;
    /// execute a base scenario with its whole enumerated neighbourhood (used to replay hangs)
    fn replay_base(&self, scn: &Value) -> Result<usize, String>;
    fn minimise(&self, scn: &Value, v: &Violation, max_exec: usize) -> Result<(Value, Violation, u64, usize), String>;
    fn real_components(&self) -> Vec<&'static str>;
    fn simulated_components(&self) -> Vec<&'static str>;
    /// all executions of base scenario idx: (scenario, trace hash, violations)
    fn run_index(&self, seed: u64, tier: Tier, idx: u64) -> Vec<(Value, u64, usize)>;
}

impl<F: Family> DynFamily for F {
    fn name(&self) -> &'static str {
        Family::name(self)
    }
    fn properties(&self) -> &'static [&'static str] {
        Family::properties(self)
    }
    fn budget(&self, tier: Tier, property: &str) -> u64 {
        Family::budget(self, tier, property)
    }
    fn run(&self, cfg: &RunCfg) -> Agg {
        run_family(self, cfg)
    }
    fn replay(&self, scn: &Value) -> Result<RunOut, String> {
        let s: F::Scenario = serde_json::from_value(scn.clone()).map_err(|e| format!("scenario does not parse: {}", e))?;
        Ok(self.execute(&s))
    }
    fn replay_base(&self, scn: &Value) -> Result<usize, String> {
        let s: F::Scenario = serde_json::from_value(scn.clone()).map_err(|e| format!("scenario does not parse: {}", e))?;
        let mut n = 0;
        self.execute_all(&s, &mut |_, _| n += 1);
        Ok(n)
    }
    fn minimise(&self, scn: &Value, v: &Violation, max_exec: usize) -> Result<(Value, Violation, u64, usize), String> {
        let s: F::Scenario = serde_json::from_value(scn.clone()).map_err(|e| format!("scenario does not parse: {}", e))?;
        let (m, v2, h, n) = minimise(self, s, v, max_exec);
        Ok((serde_json::to_value(&m).unwrap(), v2, h, n))
    }
    fn real_components(&self) -> Vec<&'static str> {
        Family::real_components(self)
    }
    fn simulated_components(&self) -> Vec<&'static str> {
        Family::simulated_components(self)
    }
    fn run_index(&self, seed: u64, tier: Tier, idx: u64) -> Vec<(Value, u64, usize)> {
        let mut rng = crate::rng::Rng::new(crate::rng::derive_seed(seed, Family::name(self), idx));
        let base = self.generate(&mut rng, tier, idx);
        let mut v = vec![];
        self.execute_all(&base, &mut |sc, out| v.push((serde_json::to_value(&sc).unwrap(), out.trace_hash, out.violations.len())));
        v
    }
}

//! Seam S5: the allocator. Nothing is decided here, everything is observed:
//! per-thread live/peak bytes and allocation counts while tracking is on, and the
//! contents of watched blocks at the moment they are handed back to the allocator.

use std::alloc::{GlobalAlloc, Layout, System};
use std::cell::Cell;

pub const BIG: usize = 16 << 20;
pub const NWATCH: usize = 16;
pub const SNAP: usize = 64;

#[derive(Clone, Copy)]
pub struct Watch {
    pub ptr: usize,
    pub len: usize,
    pub freed: bool,
    pub snap: [u8; SNAP],
}

const EMPTY_WATCH: Watch = Watch { ptr: 0, len: 0, freed: false, snap: [0xEE; SNAP] };

#[derive(Clone, Copy, Default, Debug)]
pub struct Stats {
    pub live: i64,
    pub peak: i64,
    pub allocs: u64,
    pub big_allocs: u64,
    pub frees32: u64,
    pub frees32_zero: u64,
}

thread_local! {
    static TRACK: Cell<bool> = const { Cell::new(false) };
    static STATS: Cell<Stats> = const { Cell::new(Stats { live: 0, peak: 0, allocs: 0, big_allocs: 0, frees32: 0, frees32_zero: 0 }) };
    static WATCH: Cell<[Watch; NWATCH]> = const { Cell::new([EMPTY_WATCH; NWATCH]) };
    static NW: Cell<usize> = const { Cell::new(0) };
}

pub struct SimAlloc;

unsafe impl GlobalAlloc for SimAlloc {
    unsafe fn alloc(&self, l: Layout) -> *mut u8 {
        let p = System.alloc(l);
        on_alloc(l.size());
        p
    }
    unsafe fn alloc_zeroed(&self, l: Layout) -> *mut u8 {
        let p = System.alloc_zeroed(l);
        on_alloc(l.size());
        p
    }
    unsafe fn dealloc(&self, p: *mut u8, l: Layout) {
        on_free(p, l.size());
        System.dealloc(p, l);
    }
    unsafe fn realloc(&self, p: *mut u8, l: Layout, new: usize) -> *mut u8 {
        // a realloc may move (and so release) the old block: observe it as a free first
        on_free(p, l.size());
        let q = System.realloc(p, l, new);
        on_alloc(new);
        q
    }
}

fn on_alloc(size: usize) {
    let _ = TRACK.try_with(|t| {
        if t.get() {
            let _ = STATS.try_with(|s| {
                let mut st = s.get();
                st.live += size as i64;
                if st.live > st.peak {
                    st.peak = st.live;
                }
                st.allocs += 1;
                if size >= BIG {
                    st.big_allocs += 1;
                }
                s.set(st);
            });
        }
    });
}

unsafe fn on_free(p: *mut u8, size: usize) {
    let _ = TRACK.try_with(|t| {
        if t.get() {
            let _ = STATS.try_with(|s| {
                let mut st = s.get();
                st.live -= size as i64;
                if size == 32 {
                    st.frees32 += 1;
                    let sl = std::slice::from_raw_parts(p, 32);
                    if sl.iter().all(|b| *b == 0) {
                        st.frees32_zero += 1;
                    }
                }
                s.set(st);
            });
        }
    });
    let _ = NW.try_with(|n| {
        if n.get() > 0 {
            let _ = WATCH.try_with(|w| {
                let mut arr = w.get();
                let mut hit = false;
                for e in arr.iter_mut().take(n.get()) {
                    if e.ptr == p as usize && !e.freed {
                        let k = e.len.min(SNAP).min(size);
                        e.snap[..k].copy_from_slice(std::slice::from_raw_parts(p, k));
                        e.freed = true;
                        hit = true;
                    }
                }
                if hit {
                    w.set(arr);
                }
            });
        }
    });
}

/// Start tracking on this thread (counters reset).
pub fn start() {
    STATS.with(|s| s.set(Stats::default()));
    TRACK.with(|t| t.set(true));
}

/// Stop tracking and return the counters.
pub fn stop() -> Stats {
    TRACK.with(|t| t.set(false));
    STATS.with(|s| s.get())
}

pub fn pause() -> bool {
    TRACK.with(|t| t.replace(false))
}
pub fn resume(prev: bool) {
    TRACK.with(|t| t.set(prev));
}

/// Watch the block starting at ptr: its first len bytes are snapshotted when it is freed.
pub fn watch(ptr: *const u8, len: usize) -> usize {
    let i = NW.with(|n| n.get());
    assert!(i < NWATCH);
    WATCH.with(|w| {
        let mut arr = w.get();
        arr[i] = Watch { ptr: ptr as usize, len, freed: false, snap: [0xEE; SNAP] };
        w.set(arr);
    });
    NW.with(|n| n.set(i + 1));
    i
}

pub fn watched(i: usize) -> Watch {
    WATCH.with(|w| w.get()[i])
}

pub fn clear_watches() {
    NW.with(|n| n.set(0));
}

/// RAII pause: allocations made by the harness inside a seam callback are not attributed to
/// the code under test.
pub struct PauseGuard(bool);

impl PauseGuard {
    pub fn new() -> PauseGuard {
        PauseGuard(pause())
    }
}

impl Drop for PauseGuard {
    fn drop(&mut self) {
        resume(self.0);
    }
}

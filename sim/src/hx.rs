//! Byte strings that serialise as hex (keeps replay files readable).
use serde::{Deserialize, Deserializer, Serialize, Serializer};

#[derive(Clone, PartialEq, Eq, PartialOrd, Ord, Default)]
pub struct Hx(pub Vec<u8>);

pub fn to_hex(b: &[u8]) -> String {
    let mut s = String::with_capacity(b.len() * 2);
    for x in b {
        s.push_str(&format!("{:02x}", x));
    }
    s
}

pub fn from_hex(s: &str) -> Option<Vec<u8>> {
    if s.len() % 2 != 0 {
        return None;
    }
    (0..s.len() / 2).map(|i| u8::from_str_radix(&s[2 * i..2 * i + 2], 16).ok()).collect()
}

impl std::fmt::Debug for Hx {
    fn fmt(&self, f: &mut std::fmt::Formatter) -> std::fmt::Result {
        write!(f, "{}", to_hex(&self.0))
    }
}

impl Serialize for Hx {
    fn serialize<S: Serializer>(&self, s: S) -> Result<S::Ok, S::Error> {
        s.serialize_str(&to_hex(&self.0))
    }
}

impl<'de> Deserialize<'de> for Hx {
    fn deserialize<D: Deserializer<'de>>(d: D) -> Result<Hx, D::Error> {
        let s = String::deserialize(d)?;
        from_hex(&s).map(Hx).ok_or_else(|| serde::de::Error::custom("bad hex"))
    }
}

impl Hx {
    pub fn a32(&self) -> [u8; 32] {
        let mut a = [0u8; 32];
        a.copy_from_slice(&self.0);
        a
    }
}

impl From<[u8; 32]> for Hx {
    fn from(a: [u8; 32]) -> Hx {
        Hx(a.to_vec())
    }
}
impl From<Vec<u8>> for Hx {
    fn from(a: Vec<u8>) -> Hx {
        Hx(a)
    }
}
impl From<&[u8]> for Hx {
    fn from(a: &[u8]) -> Hx {
        Hx(a.to_vec())
    }
}

//! Noise_X_25519_ChaChaPoly_SHA256 (Noise rev 34), one-way pattern X:
//!   <- s
//!   ...
//!   -> e, es, s, ss   (+ payload)
use super::prims::*;

pub const PROTOCOL: &[u8] = b"Noise_X_25519_ChaChaPoly_SHA256";

pub struct Sym {
    pub ck: [u8; 32],
    pub h: [u8; 32],
    pub k: Option<[u8; 32]>,
    pub n: u64,
}

impl Sym {
    pub fn init(prologue: &[u8], responder_static: &[u8; 32]) -> Sym {
        let mut h = [0u8; 32];
        assert!(PROTOCOL.len() <= 32);
        h[..PROTOCOL.len()].copy_from_slice(PROTOCOL);
        let mut s = Sym { ck: h, h, k: None, n: 0 };
        s.mix_hash(prologue);
        s.mix_hash(responder_static); // pre-message "<- s"
        s
    }
    pub fn mix_hash(&mut self, data: &[u8]) {
        self.h = sha256_parts(&[&self.h, data]);
    }
    pub fn mix_key(&mut self, ikm: &[u8]) {
        let temp = hmac(&self.ck, &[ikm]);
        let o1 = hmac(&temp, &[&[1u8]]);
        let o2 = hmac(&temp, &[&o1, &[2u8]]);
        self.ck = o1;
        self.k = Some(o2);
        self.n = 0;
    }
    pub fn encrypt_and_hash(&mut self, pt: &[u8]) -> Vec<u8> {
        let k = self.k.expect("key");
        let c = seal(&k, &noise_nonce(self.n), &self.h, pt);
        self.n += 1;
        self.mix_hash(&c);
        c
    }
    pub fn decrypt_and_hash(&mut self, ct: &[u8]) -> Option<Vec<u8>> {
        let k = self.k.expect("key");
        let p = open(&k, &noise_nonce(self.n), &self.h, ct)?;
        self.n += 1;
        self.mix_hash(ct);
        Some(p)
    }
}

pub struct Written {
    pub message: Vec<u8>, // 32 + 48 + 48 bytes for a 32-byte payload
    pub h: [u8; 32],
}

/// Write the single X message. `s_priv` is the static private key actually used for the
/// ss DH; `s_pub_claimed` is the static public key transmitted (normally its public key).
/// A DH that yields all zeros is *not* refused here: the caller decides (forgery support).
pub fn write_x(
    prologue: &[u8],
    s_priv: &[u8; 32],
    s_pub_claimed: &[u8; 32],
    e_priv: &[u8; 32],
    e_pub: &[u8; 32],
    rs: &[u8; 32],
    payload: &[u8],
) -> Written {
    let mut sym = Sym::init(prologue, rs);
    let mut msg = Vec::new();
    // e
    msg.extend_from_slice(e_pub);
    sym.mix_hash(e_pub);
    // es
    sym.mix_key(&x25519(e_priv, rs));
    // s
    let c = sym.encrypt_and_hash(s_pub_claimed);
    msg.extend_from_slice(&c);
    // ss
    sym.mix_key(&x25519(s_priv, rs));
    // payload
    let c = sym.encrypt_and_hash(payload);
    msg.extend_from_slice(&c);
    Written { message: msg, h: sym.h }
}

#[derive(Debug, Clone, PartialEq)]
pub enum ReadErr {
    Short,
    ZeroDh,
    AuthStatic,
    AuthPayload,
}

pub struct ReadOk {
    pub sender: [u8; 32],
    pub payload: Vec<u8>,
    pub h: [u8; 32],
}

/// Read the single X message as the responder. All-zero DH results are refused.
pub fn read_x(prologue: &[u8], r_priv: &[u8; 32], r_pub: &[u8; 32], msg: &[u8]) -> Result<ReadOk, ReadErr> {
    if msg.len() < 32 + 48 + 16 {
        return Err(ReadErr::Short);
    }
    let mut sym = Sym::init(prologue, r_pub);
    let mut re = [0u8; 32];
    re.copy_from_slice(&msg[..32]);
    sym.mix_hash(&re);
    let es = x25519(r_priv, &re);
    if es == [0u8; 32] {
        return Err(ReadErr::ZeroDh);
    }
    sym.mix_key(&es);
    let rs_v = sym.decrypt_and_hash(&msg[32..80]).ok_or(ReadErr::AuthStatic)?;
    let mut rs = [0u8; 32];
    rs.copy_from_slice(&rs_v);
    let ss = x25519(r_priv, &rs);
    if ss == [0u8; 32] {
        return Err(ReadErr::ZeroDh);
    }
    sym.mix_key(&ss);
    let payload = sym.decrypt_and_hash(&msg[80..]).ok_or(ReadErr::AuthPayload)?;
    Ok(ReadOk { sender: rs, payload, h: sym.h })
}

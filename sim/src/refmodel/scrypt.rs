//! RFC 7914 scrypt, written from the RFC's pseudocode.
use super::prims::pbkdf2;

fn salsa20_8(b: &mut [u32; 16]) {
    let mut x = *b;
    macro_rules! qr {
        ($a:expr,$b:expr,$c:expr,$d:expr) => {
            x[$b] ^= x[$a].wrapping_add(x[$d]).rotate_left(7);
            x[$c] ^= x[$b].wrapping_add(x[$a]).rotate_left(9);
            x[$d] ^= x[$c].wrapping_add(x[$b]).rotate_left(13);
            x[$a] ^= x[$d].wrapping_add(x[$c]).rotate_left(18);
        };
    }
    for _ in 0..4 {
        qr!(0, 4, 8, 12);
        qr!(5, 9, 13, 1);
        qr!(10, 14, 2, 6);
        qr!(15, 3, 7, 11);
        qr!(0, 1, 2, 3);
        qr!(5, 6, 7, 4);
        qr!(10, 11, 8, 9);
        qr!(15, 12, 13, 14);
    }
    for i in 0..16 {
        b[i] = b[i].wrapping_add(x[i]);
    }
}

/// scryptBlockMix on 2r 64-byte blocks held as u32 words.
fn block_mix(b: &mut [u32], y: &mut [u32], r: usize) {
    let mut x = [0u32; 16];
    x.copy_from_slice(&b[(2 * r - 1) * 16..2 * r * 16]);
    for i in 0..2 * r {
        for j in 0..16 {
            x[j] ^= b[i * 16 + j];
        }
        salsa20_8(&mut x);
        // even blocks first, then odd blocks
        let dst = if i % 2 == 0 { i / 2 } else { r + i / 2 };
        y[dst * 16..dst * 16 + 16].copy_from_slice(&x);
    }
    b.copy_from_slice(y);
}

fn ro_mix(b: &mut [u8], n: usize, r: usize) {
    let words = 32 * r;
    let mut x: Vec<u32> = (0..words)
        .map(|i| u32::from_le_bytes([b[4 * i], b[4 * i + 1], b[4 * i + 2], b[4 * i + 3]]))
        .collect();
    let mut y = vec![0u32; words];
    let mut v = vec![0u32; words * n];
    for i in 0..n {
        v[i * words..(i + 1) * words].copy_from_slice(&x);
        block_mix(&mut x, &mut y, r);
    }
    for _ in 0..n {
        // Integerify: first word(s) of the last 64-byte block, little-endian, mod N
        let j = ((x[(2 * r - 1) * 16] as u64) | ((x[(2 * r - 1) * 16 + 1] as u64) << 32)) as usize
            & (n - 1);
        for k in 0..words {
            x[k] ^= v[j * words + k];
        }
        block_mix(&mut x, &mut y, r);
    }
    for i in 0..words {
        b[4 * i..4 * i + 4].copy_from_slice(&x[i].to_le_bytes());
    }
}

pub fn scrypt(password: &[u8], salt: &[u8], n: usize, r: usize, p: usize, dk_len: usize) -> Vec<u8> {
    assert!(n > 1 && n.is_power_of_two());
    let mut b = pbkdf2(password, salt, 1, p * 128 * r);
    for i in 0..p {
        ro_mix(&mut b[i * 128 * r..(i + 1) * 128 * r], n, r);
    }
    pbkdf2(password, &b, 1, dk_len)
}

/// The product parameters (docs: scrypt(password, salt, 32768, 8, 1) -> 32 bytes).
pub fn product(password: &[u8], salt: &[u8]) -> [u8; 32] {
    let v = scrypt(password, salt, 32768, 8, 1, 32);
    let mut out = [0u8; 32];
    out.copy_from_slice(&v);
    out
}

//! docs/file-format.txt: writer, parser and acceptance model.
use super::noise;
use super::prims::*;

pub const MAGIC_KEY: [u8; 4] = [0x65, 0x67, 0x6b, 0x10];
pub const MAGIC_PASS: [u8; 4] = [0x65, 0x67, 0x6b, 0x20];
pub const CS: usize = 65536;

/// One chunk record: 8-byte BE chunk number, 4-byte BE last flag, 4-byte BE length, ct, tag.
/// nonce = position in the file; aad = prefix || flag || length.
pub fn write_chunk(out: &mut Vec<u8>, key: &[u8; 32], aad_prefix: &[u8], idx: u64, last: bool, pt: &[u8]) {
    let flag = (last as u32).to_be_bytes();
    let len = (pt.len() as u32).to_be_bytes();
    let mut aad = aad_prefix.to_vec();
    aad.extend_from_slice(&flag);
    aad.extend_from_slice(&len);
    out.extend_from_slice(&idx.to_be_bytes());
    out.extend_from_slice(&flag);
    out.extend_from_slice(&len);
    out.extend_from_slice(&seal(key, &noise_nonce(idx), &aad, pt));
}

/// Split `pt` by `sizes` (each > 0, summing to pt.len(); empty list only for empty pt)
/// and write the chunk records. An empty plaintext is one empty final chunk.
pub fn write_chunks(out: &mut Vec<u8>, key: &[u8; 32], aad_prefix: &[u8], pt: &[u8], sizes: &[usize]) {
    if sizes.is_empty() {
        assert!(pt.is_empty());
        write_chunk(out, key, aad_prefix, 0, true, &[]);
        return;
    }
    assert_eq!(sizes.iter().sum::<usize>(), pt.len());
    let mut off = 0;
    for (i, &s) in sizes.iter().enumerate() {
        write_chunk(out, key, aad_prefix, i as u64, i + 1 == sizes.len(), &pt[off..off + s]);
        off += s;
    }
}

pub fn file_key(payload_key: &[u8], h: &[u8; 32]) -> [u8; 32] {
    let v = hkdf(&[], payload_key, h, 32);
    let mut k = [0u8; 32];
    k.copy_from_slice(&v);
    k
}

pub struct KeyParams<'a> {
    pub s_priv: &'a [u8; 32],
    pub s_pub_claimed: &'a [u8; 32],
    pub e_priv: &'a [u8; 32],
    pub e_pub: &'a [u8; 32],
    pub recipient: &'a [u8; 32],
    pub payload_key: &'a [u8; 32],
}

pub fn write_key_file(p: &KeyParams, pt: &[u8], sizes: &[usize]) -> Vec<u8> {
    let w = noise::write_x(&MAGIC_KEY, p.s_priv, p.s_pub_claimed, p.e_priv, p.e_pub, p.recipient, p.payload_key);
    let mut out = MAGIC_KEY.to_vec();
    out.extend_from_slice(&w.message);
    let fk = file_key(p.payload_key, &w.h);
    write_chunks(&mut out, &fk, &[], pt, sizes);
    out
}

pub fn write_pass_file(key: &[u8; 32], salt: &[u8; 32], pt: &[u8], sizes: &[usize]) -> Vec<u8> {
    let mut out = MAGIC_PASS.to_vec();
    out.extend_from_slice(salt);
    write_chunks(&mut out, key, &MAGIC_PASS, pt, sizes);
    out
}

#[derive(Debug, Clone, PartialEq)]
pub enum Reject {
    ShortHeader,
    BadMagic,
    Handshake(String),
    ShortChunkHeader(usize),
    ChunkLen(usize),
    ShortChunkBody(usize),
    Auth(usize),
    Trailing(usize),
}

/// One parsed record of the chunk stream, as the acceptance model sees it.
#[derive(Debug, Clone)]
pub struct Rec {
    pub start: usize, // offset of the record in the file
    pub end: usize,   // offset one past its tag
    pub flag: u32,
    pub counter: u64,
    pub pt: Vec<u8>,
}

#[derive(Debug, Clone)]
pub struct ChunkVerdict {
    /// records that parsed completely and authenticated at their position, in order
    pub recs: Vec<Rec>,
    /// None = accepted (last rec has flag 1 and file ends right after it)
    pub reject: Option<Reject>,
}

impl ChunkVerdict {
    pub fn accepted(&self) -> bool {
        self.reject.is_none()
    }
    pub fn plaintext(&self) -> Vec<u8> {
        let mut v = Vec::new();
        for r in &self.recs {
            v.extend_from_slice(&r.pt);
        }
        v
    }
    /// Plaintext that may legitimately have been released when decryption stops:
    /// all authenticated records (the final one only counts if nothing trails it... either way
    /// it is authenticated; the caller decides what to allow).
    pub fn authenticated_prefix(&self) -> Vec<u8> {
        self.plaintext()
    }
}

/// Acceptance model for the chunk stream starting at `off` of `f`.
pub fn accept_chunks(f: &[u8], mut off: usize, key: &[u8; 32], aad_prefix: &[u8], cs: usize) -> ChunkVerdict {
    let mut recs = Vec::new();
    let mut i = 0usize;
    loop {
        if f.len() < off + 16 {
            return ChunkVerdict { recs, reject: Some(Reject::ShortChunkHeader(i)) };
        }
        let counter = u64::from_be_bytes(f[off..off + 8].try_into().unwrap());
        let flag = u32::from_be_bytes(f[off + 8..off + 12].try_into().unwrap());
        let len = u32::from_be_bytes(f[off + 12..off + 16].try_into().unwrap()) as usize;
        if len > cs {
            return ChunkVerdict { recs, reject: Some(Reject::ChunkLen(i)) };
        }
        if f.len() < off + 16 + len + 16 {
            return ChunkVerdict { recs, reject: Some(Reject::ShortChunkBody(i)) };
        }
        let mut aad = aad_prefix.to_vec();
        aad.extend_from_slice(&f[off + 8..off + 16]);
        let body = &f[off + 16..off + 16 + len + 16];
        let pt = match open(key, &noise_nonce(i as u64), &aad, body) {
            Some(p) => p,
            None => return ChunkVerdict { recs, reject: Some(Reject::Auth(i)) },
        };
        let end = off + 32 + len;
        recs.push(Rec { start: off, end, flag, counter, pt });
        if flag == 1 {
            if f.len() != end {
                return ChunkVerdict { recs, reject: Some(Reject::Trailing(i)) };
            }
            return ChunkVerdict { recs, reject: None };
        }
        off = end;
        i += 1;
    }
}

pub struct KeyVerdict {
    pub sender: Option<[u8; 32]>,
    pub payload_key: Option<[u8; 32]>,
    pub file_key: Option<[u8; 32]>,
    pub chunks: ChunkVerdict,
}

pub fn accept_key_file(f: &[u8], r_priv: &[u8; 32], r_pub: &[u8; 32]) -> KeyVerdict {
    let none = |r: Reject| KeyVerdict {
        sender: None,
        payload_key: None,
        file_key: None,
        chunks: ChunkVerdict { recs: vec![], reject: Some(r) },
    };
    if f.len() < 4 {
        return none(Reject::ShortHeader);
    }
    if f[..4] != MAGIC_KEY {
        return none(Reject::BadMagic);
    }
    if f.len() < 132 {
        return none(Reject::ShortHeader);
    }
    let rd = match noise::read_x(&MAGIC_KEY, r_priv, r_pub, &f[4..132]) {
        Ok(r) => r,
        Err(e) => return none(Reject::Handshake(format!("{:?}", e))),
    };
    if rd.payload.len() != 32 {
        return none(Reject::Handshake("payload length".into()));
    }
    let fk = file_key(&rd.payload, &rd.h);
    let mut pk = [0u8; 32];
    pk.copy_from_slice(&rd.payload);
    KeyVerdict {
        sender: Some(rd.sender),
        payload_key: Some(pk),
        file_key: Some(fk),
        chunks: accept_chunks(f, 132, &fk, &[], CS),
    }
}

/// `key` = scrypt(password, salt) for the salt found in the file (caller supplies a
/// function so results can be cached).
pub fn accept_pass_file(f: &[u8], derive: &mut dyn FnMut(&[u8; 32]) -> [u8; 32]) -> ChunkVerdict {
    if f.len() < 4 {
        return ChunkVerdict { recs: vec![], reject: Some(Reject::ShortHeader) };
    }
    if f[..4] != MAGIC_PASS {
        return ChunkVerdict { recs: vec![], reject: Some(Reject::BadMagic) };
    }
    if f.len() < 36 {
        return ChunkVerdict { recs: vec![], reject: Some(Reject::ShortHeader) };
    }
    let mut salt = [0u8; 32];
    salt.copy_from_slice(&f[4..36]);
    let key = derive(&salt);
    accept_chunks(f, 36, &key, &MAGIC_PASS, CS)
}

//! RFC 4648 base64, standard alphabet, with '=' padding, strict.
const ALPHA: &[u8; 64] = b"ABCDEFGHIJKLMNOPQRSTUVWXYZabcdefghijklmnopqrstuvwxyz0123456789+/";

pub fn encode(data: &[u8]) -> String {
    let mut out = String::new();
    for c in data.chunks(3) {
        let b0 = c[0] as u32;
        let b1 = *c.get(1).unwrap_or(&0) as u32;
        let b2 = *c.get(2).unwrap_or(&0) as u32;
        let v = (b0 << 16) | (b1 << 8) | b2;
        out.push(ALPHA[(v >> 18) as usize & 63] as char);
        out.push(ALPHA[(v >> 12) as usize & 63] as char);
        out.push(if c.len() > 1 { ALPHA[(v >> 6) as usize & 63] as char } else { '=' });
        out.push(if c.len() > 2 { ALPHA[v as usize & 63] as char } else { '=' });
    }
    out
}

fn val(c: u8) -> Option<u32> {
    ALPHA.iter().position(|&a| a == c).map(|p| p as u32)
}

/// Strict decode: length multiple of 4, padding only at the end, canonical trailing bits.
pub fn decode(s: &str) -> Option<Vec<u8>> {
    let b = s.as_bytes();
    if b.len() % 4 != 0 {
        return None;
    }
    let mut out = Vec::new();
    let n = b.len() / 4;
    for (qi, q) in b.chunks(4).enumerate() {
        let last = qi == n - 1;
        let pad = if q[3] == b'=' { if q[2] == b'=' { 2 } else { 1 } } else { 0 };
        if pad > 0 && !last {
            return None;
        }
        let v0 = val(q[0])?;
        let v1 = val(q[1])?;
        let v2 = if pad == 2 { 0 } else { val(q[2])? };
        let v3 = if pad >= 1 { 0 } else { val(q[3])? };
        let v = (v0 << 18) | (v1 << 12) | (v2 << 6) | v3;
        out.push((v >> 16) as u8);
        if pad < 2 {
            out.push((v >> 8) as u8);
        } else if v & 0xffff != 0 {
            return None;
        }
        if pad < 1 {
            out.push(v as u8);
        } else if pad == 1 && v & 0xff != 0 {
            return None;
        }
    }
    Some(out)
}

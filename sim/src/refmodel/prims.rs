use orion::hazardous::aead::chacha20poly1305 as cp;
use orion::hazardous::ecc::x25519 as ox;
use orion::hazardous::hash::sha2::sha256::Sha256;

pub fn sha256(data: &[u8]) -> [u8; 32] {
    let d = Sha256::digest(data).expect("sha256");
    let mut out = [0u8; 32];
    out.copy_from_slice(d.as_ref());
    out
}

pub fn sha256_parts(parts: &[&[u8]]) -> [u8; 32] {
    let mut st = Sha256::new();
    for p in parts {
        st.update(p).expect("sha256 update");
    }
    let d = st.finalize().expect("sha256 fin");
    let mut out = [0u8; 32];
    out.copy_from_slice(d.as_ref());
    out
}

/// RFC 2104 HMAC-SHA-256, written out over SHA-256.
pub fn hmac(key: &[u8], parts: &[&[u8]]) -> [u8; 32] {
    let mut k = [0u8; 64];
    if key.len() > 64 {
        k[..32].copy_from_slice(&sha256(key));
    } else {
        k[..key.len()].copy_from_slice(key);
    }
    let mut ipad = [0x36u8; 64];
    let mut opad = [0x5cu8; 64];
    for i in 0..64 {
        ipad[i] ^= k[i];
        opad[i] ^= k[i];
    }
    let mut v: Vec<&[u8]> = Vec::with_capacity(parts.len() + 1);
    v.push(&ipad);
    v.extend_from_slice(parts);
    let inner = sha256_parts(&v);
    sha256_parts(&[&opad, &inner])
}

/// RFC 5869 HKDF-SHA-256.
pub fn hkdf(salt: &[u8], ikm: &[u8], info: &[u8], len: usize) -> Vec<u8> {
    let zero = [0u8; 32];
    let salt = if salt.is_empty() { &zero[..] } else { salt };
    let prk = hmac(salt, &[ikm]);
    let mut out = Vec::with_capacity(len + 32);
    let mut t: Vec<u8> = Vec::new();
    let mut ctr = 1u8;
    while out.len() < len {
        let block = hmac(&prk, &[&t, info, &[ctr]]);
        t = block.to_vec();
        out.extend_from_slice(&block);
        ctr = ctr.wrapping_add(1);
    }
    out.truncate(len);
    out
}

/// RFC 8018 PBKDF2-HMAC-SHA-256.
pub fn pbkdf2(password: &[u8], salt: &[u8], iters: u32, len: usize) -> Vec<u8> {
    let mut out = Vec::with_capacity(len + 32);
    let mut i = 1u32;
    while out.len() < len {
        let mut u = hmac(password, &[salt, &i.to_be_bytes()]);
        let mut t = u;
        for _ in 1..iters {
            u = hmac(password, &[&u]);
            for j in 0..32 {
                t[j] ^= u[j];
            }
        }
        out.extend_from_slice(&t);
        i += 1;
    }
    out.truncate(len);
    out
}

/// RFC 8439 AEAD seal: returns ct || tag.
pub fn seal(key: &[u8; 32], nonce: &[u8; 12], aad: &[u8], pt: &[u8]) -> Vec<u8> {
    let k = cp::SecretKey::from_slice(key).unwrap();
    let n = cp::Nonce::from_slice(nonce).unwrap();
    let mut out = vec![0u8; pt.len() + 16];
    cp::seal(&k, &n, pt, Some(aad), &mut out).expect("seal");
    out
}

/// RFC 8439 AEAD open of ct || tag.
pub fn open(key: &[u8; 32], nonce: &[u8; 12], aad: &[u8], ct: &[u8]) -> Option<Vec<u8>> {
    if ct.len() < 16 {
        return None;
    }
    let k = cp::SecretKey::from_slice(key).unwrap();
    let n = cp::Nonce::from_slice(nonce).unwrap();
    let mut out = vec![0u8; ct.len() - 16];
    match cp::open(&k, &n, ct, Some(aad), &mut out) {
        Ok(()) => Some(out),
        Err(_) => None,
    }
}

/// Noise nonce: 4 zero bytes then the 64-bit little-endian counter.
pub fn noise_nonce(n: u64) -> [u8; 12] {
    let mut out = [0u8; 12];
    out[4..].copy_from_slice(&n.to_le_bytes());
    out
}

/// RFC 7748 X25519. The all-zero result (which orion refuses) is returned as zeros.
pub fn x25519(k: &[u8; 32], u: &[u8; 32]) -> [u8; 32] {
    let sk = ox::PrivateKey::from_slice(k).unwrap();
    let pk = ox::PublicKey::from_slice(u).unwrap();
    match ox::key_agreement(&sk, &pk) {
        Ok(s) => {
            let mut out = [0u8; 32];
            out.copy_from_slice(s.unprotected_as_bytes());
            out
        }
        Err(_) => [0u8; 32],
    }
}

pub fn x25519_base(k: &[u8; 32]) -> [u8; 32] {
    let mut base = [0u8; 32];
    base[0] = 9;
    x25519(k, &base)
}

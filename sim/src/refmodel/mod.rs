//! Reference model: an independent executable specification of the kestrel
//! formats, written from docs/file-format.txt, the Noise specification (rev 34,
//! Noise_X_25519_ChaChaPoly_SHA256) and RFC 8439/7748/5869/7914/2104.
//! Shares no code with finfet/kestrel. Primitive cores (SHA-256,
//! ChaCha20-Poly1305, X25519) come from orion, called directly.

pub mod b64;
pub mod format;
pub mod keyring;
pub mod noise;
pub mod prims;
pub mod scrypt;

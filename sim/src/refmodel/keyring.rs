//! Keyring text format (docs/kestrel.1.md), public-key encoding and the locked
//! private key format (docs/file-format.txt).
use super::b64;
use super::prims::*;
use super::scrypt;

pub const SK_VERSION: [u8; 4] = [0x65, 0x67, 0x6b, 0x30];

pub fn encode_pk(pk: &[u8; 32]) -> String {
    let mut v = pk.to_vec();
    v.extend_from_slice(&sha256(pk)[..4]);
    b64::encode(&v)
}

/// Some(pk) iff the text is base64 of 36 bytes whose last 4 are SHA-256(pk)[..4].
pub fn decode_pk(s: &str) -> Option<[u8; 32]> {
    let v = b64::decode(s)?;
    if v.len() != 36 {
        return None;
    }
    if v[32..] != sha256(&v[..32])[..4] {
        return None;
    }
    let mut pk = [0u8; 32];
    pk.copy_from_slice(&v[..32]);
    Some(pk)
}

pub fn lock_with_key(sk: &[u8; 32], key: &[u8; 32], salt: &[u8; 32]) -> String {
    let mut v = SK_VERSION.to_vec();
    v.extend_from_slice(salt);
    v.extend_from_slice(&seal(key, &[0u8; 12], &SK_VERSION, sk));
    b64::encode(&v)
}

pub fn lock(sk: &[u8; 32], password: &[u8], salt: &[u8; 32]) -> String {
    lock_with_key(sk, &scrypt::product(password, salt), salt)
}

pub fn parse_locked(s: &str) -> Option<([u8; 32], Vec<u8>)> {
    let v = b64::decode(s)?;
    if v.len() != 84 || v[..4] != SK_VERSION {
        return None;
    }
    let mut salt = [0u8; 32];
    salt.copy_from_slice(&v[4..36]);
    Some((salt, v[36..].to_vec()))
}

pub fn unlock_with(s: &str, derive: &mut dyn FnMut(&[u8; 32]) -> [u8; 32]) -> Option<[u8; 32]> {
    let (salt, ct) = parse_locked(s)?;
    let key = derive(&salt);
    let pt = open(&key, &[0u8; 12], &SK_VERSION, &ct)?;
    let mut sk = [0u8; 32];
    sk.copy_from_slice(&pt);
    Some(sk)
}

pub fn unlock(s: &str, password: &[u8]) -> Option<[u8; 32]> {
    unlock_with(s, &mut |salt| scrypt::product(password, salt))
}

#[derive(Debug, Clone, PartialEq)]
pub struct Entry {
    pub name: String,
    pub public: String,
    pub private: Option<String>,
}

/// Parser for texts made of the documented line forms only:
///   `[Key]`, `Name = v`, `PublicKey = v`, `PrivateKey = v`, `# comment`, blank.
/// Anything else is junk and rejects the file. Accepts iff there is at least one section,
/// every section has exactly one Name (1..=128 bytes) and one PublicKey (base64 of 36
/// bytes), at most one PrivateKey (base64 of 84 bytes), no field appears before the
/// first [Key], and no name or public key repeats. Entries are the sections in order.
pub fn parse(text: &str) -> Option<Vec<Entry>> {
    let mut out: Vec<Entry> = Vec::new();
    let mut cur: Option<(Option<String>, Option<String>, Option<String>)> = None;
    fn close(out: &mut Vec<Entry>, c: (Option<String>, Option<String>, Option<String>)) -> Option<()> {
        let e = Entry { name: c.0?, public: c.1?, private: c.2 };
        if out.iter().any(|o| o.name == e.name || o.public == e.public) {
            return None;
        }
        out.push(e);
        Some(())
    }
    for raw in text.lines() {
        let line = raw.trim();
        if line.is_empty() || line.starts_with('#') {
            continue;
        }
        if line == "[Key]" {
            if let Some(c) = cur.take() {
                close(&mut out, c)?;
            }
            cur = Some((None, None, None));
            continue;
        }
        let (k, v) = line.split_once('=')?;
        let (k, v) = (k.trim(), v.trim());
        let c = cur.as_mut()?;
        match k {
            "Name" => {
                if c.0.is_some() || v.is_empty() || v.len() > 128 {
                    return None;
                }
                c.0 = Some(v.to_string());
            }
            "PublicKey" => {
                if c.1.is_some() || b64::decode(v)?.len() != 36 {
                    return None;
                }
                c.1 = Some(v.to_string());
            }
            "PrivateKey" => {
                if c.2.is_some() || b64::decode(v)?.len() != 84 {
                    return None;
                }
                c.2 = Some(v.to_string());
            }
            _ => return None,
        }
    }
    close(&mut out, cur?)?;
    Some(out)
}

//! Family B7 "CLI bigstream": the real kestrel binary on inputs of 1 MiB .. 256 MiB, from a file
//! argument or from stdin, to -o or to stdout. The child's peak resident set size is sampled from
//! /proc/<pid>/status (VmHWM) while it runs: it must not grow with the input (relative to the same command on 1 MiB), and
//! the output must be complete and correct. The CLI clause of C11.

use crate::cli::*;
use crate::engine::*;
use crate::fam::b1::world;
use crate::refmodel::{format as rf, prims as rp};
use crate::rng::Rng;
use serde::{Deserialize, Serialize};

#[derive(Serialize, Deserialize, Clone, Debug, PartialEq)]
pub enum Op {
    Encrypt,
    Decrypt,
    PassEncrypt,
    PassDecrypt,
}

#[derive(Serialize, Deserialize, Clone, Debug)]
pub struct Scn {
    pub op: Op,
    pub in_file: bool,
    pub out_opt: bool,
    pub len: usize,
    pub seed: u64,
    /// the output path already holds a file of the input's size (a second run onto the same name)
    #[serde(default)]
    pub prior_output: bool,
    /// decryption fed through a named pipe that stays open: before the end of input is signalled, the
    /// output file must already hold all but the last few chunks (incremental output, observed from outside)
    #[serde(default)]
    pub incremental: bool,
    /// encryption of a sparse multi-GiB file to /dev/null (thorough tier): only exit status and peak RSS
    #[serde(default)]
    pub sparse_gib: u64,
}

pub struct B7;

const BASE_LEN: usize = 1 << 20;

fn run_sparse(s: &Scn, gib: u64) -> Finished {
    let w = world(s.seed % 4);
    let sb = Sandbox::new("b7");
    let spec = |i: usize, p: bool| KeySpec { name: w.names[i].clone(), sk: w.sks[i], password: if p { Some(w.pws[i].clone()) } else { None }, salt: w.salts[i] };
    sb.write("keyring.txt", keyring_text(&[spec(0, true), spec(1, true)]).as_bytes());
    if let Ok(f) = std::fs::File::create(sb.dir.join("input.bin")) {
        let _ = f.set_len(gib << 30);
    }
    let mut args: Vec<String> = if s.op == Op::Encrypt {
        vec!["encrypt".into(), "-t".into(), w.names[1].clone(), "-f".into(), w.names[0].clone(), "-k".into(), "keyring.txt".into()]
    } else {
        vec!["password".into(), "encrypt".into()]
    };
    args.extend(["--env-pass".into(), "input.bin".into(), "-o".into(), "/dev/null".into()]);
    let refs: Vec<&str> = args.iter().map(|a| a.as_str()).collect();
    let pw = if s.op == Op::Encrypt { w.pws[0].clone() } else { w.file_pw.clone() };
    let mut inv = Invocation::new(&refs).env("KESTREL_PASSWORD", &pw);
    inv.entropy_seed = Some(s.seed ^ 0x77);
    inv.timeout_s = 900;
    inv.sample_rss = true;
    run(&sb, &inv)
}

fn run_one(s: &Scn, len: usize) -> (Finished, bool, String) {
    let w = world(s.seed % 4);
    let pubs: Vec<[u8; 32]> = w.sks.iter().map(rp::x25519_base).collect();
    let mut r = Rng::new(s.seed ^ 0xB7);
    let (e, payload) = (r.arr32(), r.arr32());
    let fsalt = Rng::new(s.seed % 4).arr32();
    // content classes as everywhere else (random, zeros, 0xFF, header-like, text); runs that watch the
    // output grow use zeros half of the time (sparse-file tricks key on them)
    let mut fs = s.seed ^ 0xda7a;
    if s.incremental && s.seed & 16 == 0 {
        fs = (fs & !7) | 4;
    }
    let pt = crate::ops::Plain { len, fill_seed: fs }.bytes();
    let sb = Sandbox::new("b7");
    let spec = |i: usize, p: bool| KeySpec { name: w.names[i].clone(), sk: w.sks[i], password: if p { Some(w.pws[i].clone()) } else { None }, salt: w.salts[i] };
    sb.write("keyring.txt", keyring_text(&[spec(0, true), spec(1, true)]).as_bytes());
    let input: Vec<u8> = match s.op {
        Op::Decrypt => rf::write_key_file(&rf::KeyParams { s_priv: &w.sks[0], s_pub_claimed: &pubs[0], e_priv: &e, e_pub: &rp::x25519_base(&e), recipient: &pubs[1], payload_key: &payload }, &pt, &crate::gen::full_chunking(pt.len(), 65536)),
        Op::PassDecrypt => rf::write_pass_file(&crate::ops::ref_scrypt_cached(w.file_pw.as_bytes(), &fsalt), &fsalt, &pt, &crate::gen::full_chunking(pt.len(), 65536)),
        _ => pt.clone(),
    };
    sb.write("input.bin", &input);
    if s.prior_output {
        // (sparse, and larger than the input: what it holds does not matter, only that it is big)
        if let Ok(f) = std::fs::File::create(sb.dir.join("output.bin")) {
            let _ = f.set_len((len as u64).max(BASE_LEN as u64) * 2);
        }
    }
    drop(input);
    let mut args: Vec<String> = match s.op {
        Op::Encrypt => vec!["encrypt".into(), "-t".into(), w.names[1].clone(), "-f".into(), w.names[0].clone(), "-k".into(), "keyring.txt".into()],
        Op::Decrypt => vec!["decrypt".into(), "-t".into(), w.names[1].clone(), "-k".into(), "keyring.txt".into()],
        Op::PassEncrypt => vec!["password".into(), "encrypt".into()],
        Op::PassDecrypt => vec!["password".into(), "decrypt".into()],
    };
    args.push("--env-pass".into());
    if s.in_file {
        args.push("input.bin".into());
    }
    if s.out_opt {
        args.extend(["-o".into(), "output.bin".into()]);
    }
    let refs: Vec<&str> = args.iter().map(|a| a.as_str()).collect();
    let pw = match s.op {
        Op::Encrypt => w.pws[0].clone(),
        Op::Decrypt => w.pws[1].clone(),
        _ => w.file_pw.clone(),
    };
    let mut inv = Invocation::new(&refs).env("KESTREL_PASSWORD", &pw);
    let incremental = s.incremental && matches!(s.op, Op::Decrypt | Op::PassDecrypt) && s.in_file && s.out_opt && len > 8 * 65536;
    if incremental {
        // the ciphertext arrives through a named pipe; the file argument is that pipe
        let data = sb.read("input.bin").unwrap_or_default();
        let _ = std::fs::remove_file(sb.dir.join("input.bin"));
        inv.fifo = Some(("input.bin".into(), data));
        inv.watch_before_eof = Some(("output.bin".into(), (len - 4 * 65536) as u64));
    }
    if !s.in_file {
        inv.stdin = Stdin::File("input.bin".into());
    }
    if !s.out_opt {
        inv.stdout = Stdout::File("output.bin".into());
    }
    inv.entropy_seed = Some(s.seed ^ 0x77);
    inv.timeout_s = 300;
    inv.sample_rss = true;
    let fin = run(&sb, &inv);
    let output = sb.read("output.bin").unwrap_or_default();
    let (ok, why) = match s.op {
        Op::Decrypt | Op::PassDecrypt => (output == pt, format!("{} of {} plaintext bytes", output.len(), pt.len())),
        Op::Encrypt => {
            let v = rf::accept_key_file(&output, &w.sks[1], &pubs[1]);
            (v.chunks.accepted() && v.chunks.plaintext() == pt && v.sender == Some(pubs[0]), format!("reference reader: {:?}", v.chunks.reject))
        }
        Op::PassEncrypt => {
            let p = w.file_pw.clone();
            let v = rf::accept_pass_file(&output, &mut |salt| crate::ops::ref_scrypt_cached(p.as_bytes(), salt));
            (v.accepted() && v.plaintext() == pt, format!("reference reader: {:?}", v.reject))
        }
    };
    (fin, ok, why)
}

impl Family for B7 {
    type Scenario = Scn;
    fn name(&self) -> &'static str {
        "b7"
    }
    fn properties(&self) -> &'static [&'static str] {
        &["C11"]
    }
    fn budget(&self, tier: Tier, _p: &str) -> u64 {
        match tier {
            Tier::Quick => 17,
            Tier::Thorough => 128,
        }
    }
    fn generate(&self, rng: &mut Rng, tier: Tier, idx: u64) -> Scn {
        // the first 16 scenarios are the (operation x input wiring x output wiring) grid
        let m = if idx < 16 { idx } else { rng.below(16) };
        let op = match m & 3 {
            0 => Op::Encrypt,
            1 => Op::Decrypt,
            2 => Op::PassEncrypt,
            _ => Op::PassDecrypt,
        };
        // every kestrel process legitimately peaks at about 35 MiB (one scrypt evaluation, 32 MiB): inputs
        // must be well above that for buffering in proportion to the input to show
        let sizes: &[usize] = if tier == Tier::Quick { &[96 << 20, 128 << 20] } else { &[64 << 20, 128 << 20, 256 << 20] };
        // a sparse multi-GiB encryption (one in the quick tier, a few in the thorough tier)
        if tier == Tier::Quick && idx == 16 {
            return Scn { op: Op::PassEncrypt, in_file: true, out_opt: true, len: 0, seed: rng.next_u64(), prior_output: false, incremental: false, sparse_gib: 5 };
        }
        if tier == Tier::Thorough && idx >= 16 && idx < 20 {
            return Scn { op: if idx % 2 == 0 { Op::Encrypt } else { Op::PassEncrypt }, in_file: true, out_opt: true, len: 0, seed: rng.next_u64(), prior_output: false, incremental: false, sparse_gib: 8 };
        }
        let incremental = m & 12 == 12 && m & 1 == 1;
        Scn { op, in_file: m & 4 == 4, out_opt: m & 8 == 8, len: *rng.pick(sizes) + rng.usize_below(3), seed: rng.next_u64(), prior_output: !incremental && rng.chance(1, 2), incremental, sparse_gib: 0 }
    }
    fn execute(&self, s: &Scn) -> RunOut {
        let mut out = RunOut::default();
        out.props = vec!["C11"];
        if s.sparse_gib > 0 {
            let (base, _, _) = run_one(&Scn { sparse_gib: 0, ..s.clone() }, BASE_LEN);
            let big = run_sparse(s, s.sparse_gib);
            let what = format!("{:?} of a sparse {} GiB file to /dev/null", s.op, s.sparse_gib);
            if big.status != Status::Exit(0) {
                out.violations.push(viol("C11", "cli_stream_failed", format!("{}: {:?} {}", what, big.status, big.stderr_text().chars().take(200).collect::<String>())));
            }
            if big.max_rss_kib > base.max_rss_kib.max(48 * 1024) + 8 * 1024 {
                out.violations.push(viol("C11", "cli_memory_grows_with_input", format!("{}: peak RSS {} KiB, {} KiB for 1 MiB", what, big.max_rss_kib, base.max_rss_kib)));
            }
            out.trace_hash = crate::rng::fnv64(format!("{:?}", big.status).as_bytes());
            out.steps = 2;
            out.count("probe.cli_bytes_streamed", s.sparse_gib << 30);
            out.count("probe.sparse_multi_gib_runs", 1);
            out.signature = format!("b7|{:?}|sparse{}", s.op, s.sparse_gib);
            out.nontrivial = true;
            return out;
        }
        let (base, base_ok, base_why) = run_one(s, BASE_LEN);
        let (big, big_ok, big_why) = run_one(s, s.len);
        let what = format!("{:?} {} {} len={}", s.op, if s.in_file { "file-arg" } else { "stdin" }, if s.out_opt { "-o" } else { "stdout" }, s.len);
        if base.status != Status::Exit(0) || !base_ok {
            out.violations.push(viol("C11", "cli_stream_failed", format!("{} at 1 MiB: {:?} {} {}", what, base.status, base_why, base.stderr_text().chars().take(200).collect::<String>())));
        }
        if big.status != Status::Exit(0) || !big_ok {
            out.violations.push(viol("C11", "cli_stream_failed", format!("{}: {:?} {} {}", what, big.status, big_why, big.stderr_text().chars().take(200).collect::<String>())));
        }
        if let Some((ok, size)) = big.grew_before_eof {
            out.count("probe.incremental_output_observed", 1);
            if !ok {
                out.violations.push(viol("C11", "cli_output_not_incremental", format!("{}: all {} ciphertext bytes had been consumed and 15 s passed, but the output file held only {} of {} plaintext bytes before the end of input was signalled", what, s.len, size, s.len)));
            }
        }
        // peak RSS independent of the input length (8 MiB of slack for allocator and page-cache noise)
        // The sampled VmHWM of a 0.1 s baseline can miss its own scrypt peak (32 MiB) on a loaded
        // machine, so the reference level is never taken below 48 MiB - still less than the smallest
        // input used here, so buffering proportional to the input is seen.
        if big.max_rss_kib > base.max_rss_kib.max(48 * 1024) + 8 * 1024 {
            out.violations.push(viol("C11", "cli_memory_grows_with_input", format!("{}: peak RSS {} KiB, {} KiB for the same command on 1 MiB", what, big.max_rss_kib, base.max_rss_kib)));
        }
        // RSS values vary by a few pages between runs: they are evidence, not part of the trace
        out.trace_hash = crate::rng::fnv64(format!("{:?}|{}|{:?}|{}", base.status, base_ok, big.status, big_ok).as_bytes());
        out.steps = 2;
        out.count("probe.cli_bytes_streamed", s.len as u64);
        out.count(&format!("probe.cli_peak_rss_kib.{:?}", s.op), big.max_rss_kib.max(0) as u64);
        out.signature = format!("b7|{:?}|{}|{}|2^{}", s.op, s.in_file, s.out_opt, usize::BITS - s.len.leading_zeros());
        out.nontrivial = true;
        out
    }
    fn shrink(&self, s: &Scn) -> Vec<Scn> {
        let mut c = vec![];
        if s.len > 4 << 20 {
            let mut t = s.clone();
            t.len = s.len / 2;
            c.push(t);
        }
        c
    }
    fn real_components(&self) -> Vec<&'static str> {
        vec!["the kestrel binary built from the working tree, real files and redirections in the sandbox directory"]
    }
    fn simulated_components(&self) -> Vec<&'static str> {
        vec!["the invoking shell (argv, environment, stdin/stdout redirection)", "input artefacts up to 256 MiB (PRNG plaintext, reference-written ciphertext)", "/proc/<pid>/status VmHWM sampling as the memory probe"]
    }
}

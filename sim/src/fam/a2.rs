//! Family A2 "stream-iofault": fault sequences on the Read/Write seams of one encryption or
//! decryption. Decides C10; C04 (release monitor) and C07 (seal observer) ride along.

use crate::engine::*;
use crate::gen::*;
use crate::ops::*;
use crate::rng::Rng;
use crate::seams::*;
use serde::{Deserialize, Serialize};

#[derive(Serialize, Deserialize, Clone, Debug, PartialEq)]
pub enum Dir {
    Enc,
    Dec,
}

#[derive(Serialize, Deserialize, Clone, Debug)]
pub struct Scn {
    pub dir: Dir,
    pub mode: Mode,
    pub plain: Plain,
    /// Dec only: chunking of the (reference-written) ciphertext
    pub chunking: Vec<usize>,
    pub rs: ReadScript,
    pub ws: WriteScript,
    pub entropy_tag: u64,
    /// enumerate the single-fault neighbourhood of this base scenario
    pub enumerate: bool,
}

pub struct A2;

struct Exec {
    run: OpRun,
    fired: std::collections::BTreeMap<&'static str, u64>,
    first_hard: Option<Side>,
    transient_sides: Vec<Side>,
    any_fault: bool,
    hash: u64,
    steps: u64,
    monitor_violation: Option<String>,
    seal_reuse: Option<String>,
    fault_log: Vec<(char, usize, IoFault)>,
    nonempty_reads: usize,
}

fn exec_once(s: &Scn, input: &[u8], with_faults: bool, monitor: Option<ReleaseMonitor>) -> Exec {
    let mut rs = s.rs.clone();
    let mut ws = s.ws.clone();
    if !with_faults {
        rs.faults.clear();
        ws.faults.clear();
        ws.flush_faults.clear();
    }
    let min_cap = rs.caps.iter().chain(ws.caps.iter()).copied().min().unwrap_or(usize::MAX).min(s.mode.cs()).max(1);
    let nfaults = (rs.faults.len() + ws.faults.len() + ws.flush_faults.len()) as u64;
    let trace = Trace::new(budget_for(input.len() + 200, min_cap) + 64 * s.chunking.len() as u64 + 8 * nfaults, false);
    let _ent = install_entropy(s.entropy_tag, trace.clone());
    let seal = install_seal_observer(trace.clone());
    let run = match s.dir {
        Dir::Enc => run_encrypt(&s.mode, input, &rs, &ws, &trace),
        Dir::Dec => run_decrypt(&s.mode, input, &rs, &ws, &trace, monitor, None),
    };
    remove_entropy();
    remove_seal_observer();
    let t = trace.borrow();
    let mut first_hard = None;
    let mut transient_sides = Vec::new();
    let mut any_fault = false;
    for (seam, _, kind) in &t.fault_log {
        let (side, kind) = (if *seam == 'r' { Side::Read } else { Side::Write }, *kind);
        any_fault = true;
        if kind.transient() {
            transient_sides.push(side);
        } else if first_hard.is_none() {
            first_hard = Some(side);
        }
    }
    let seal_reuse = seal.borrow().reuse.clone();
    Exec {
        run,
        fired: t.fired.clone(),
        first_hard,
        transient_sides,
        any_fault,
        hash: t.hash,
        steps: t.seq,
        monitor_violation: t.monitor_violation.clone(),
        seal_reuse,
        fault_log: t.fault_log.clone(),
        nonempty_reads: t.read_sizes.iter().filter(|n| **n > 0).count(),
    }
}

fn build_input(s: &Scn) -> (Vec<u8>, Vec<u8>) {
    let pt = s.plain.bytes();
    match s.dir {
        Dir::Enc => (pt.clone(), pt),
        Dir::Dec => {
            let ct = reference_file(&s.mode, &pt, &s.chunking, &mut |p, salt| ref_scrypt_cached(p, salt))
                .expect("Dec scenarios carry fixed randomness");
            (ct, pt)
        }
    }
}

fn monitor_for(s: &Scn, ct: &[u8]) -> Option<ReleaseMonitor> {
    if s.dir != Dir::Dec {
        return None;
    }
    let (v, _) = reference_verdict(&s.mode, ct, &mut |p, salt| ref_scrypt_cached(p, salt));
    let mut cum = 0;
    let recs = v
        .recs
        .iter()
        .map(|r| {
            cum += r.pt.len();
            (r.end, cum)
        })
        .collect();
    Some(ReleaseMonitor { recs, auth_plain: v.plaintext() })
}

impl A2 {
    fn judge(&self, s: &Scn) -> RunOut {
        let (input, pt) = build_input(s);
        let mut out = RunOut::default();
        out.props = vec!["C10", "C04", "C07", "C08", "C03"];
        // fault-free twin
        let twin = exec_once(s, &input, false, monitor_for(s, &input));
        let expected: &[u8] = &twin.run.sink;
        if !twin.run.outcome.is_ok() {
            out.violations.push(viol("C10", "twin_not_ok", format!("fault-free run did not succeed: {:?}", twin.run.outcome)));
        } else if s.dir == Dir::Dec && twin.run.sink != pt {
            out.violations.push(viol("C10", "twin_wrong_output", format!("fault-free decryption wrote {} bytes, expected the {}-byte plaintext", twin.run.sink.len(), pt.len())));
        }
        let e = exec_once(s, &input, true, monitor_for(s, &input));
        if e.fault_log.iter().any(|(_, _, k)| *k == IoFault::EarlyEof) {
            // The source said "end of input" before its data was exhausted. Whatever the encryptor
            // makes of that (stop there, or report unexpected data), it must not panic, must not seal
            // two messages under one nonce, and a file it declares complete must decrypt to a prefix
            // of the plaintext.
            out.trace_hash = e.hash ^ twin.hash.rotate_left(1);
            out.steps = e.steps + twin.steps;
            out.merge_fired(&e.fired);
            match &e.run.outcome {
                Outcome::Panic(p) => out.violations.push(viol("C10", "panic", format!("panicked: {}", p))),
                Outcome::Hang => out.violations.push(viol("C10", "hang", "step budget exceeded".into())),
                Outcome::Ok(_) if s.dir == Dir::Enc => {
                    let (v, _) = reference_verdict(&s.mode, &e.run.sink, &mut |p, salt| ref_scrypt_cached(p, salt));
                    if !v.accepted() || !pt.starts_with(&v.plaintext()) {
                        out.violations.push(viol("C10", "early_eof_result_wrong", format!("after an early end-of-input the encryptor reported success with a file the reference reader {} ({} plaintext bytes, prefix: {})", if v.accepted() { "accepts" } else { "rejects" }, v.plaintext().len(), pt.starts_with(&v.plaintext()))));
                    }
                }
                _ => {}
            }
            if let Some(r) = e.seal_reuse {
                out.violations.push(viol("C07", "nonce_reuse", r));
            }
            out.signature = format!("a2|{:?}|{}|earlyeof|{}", s.dir, s.mode.class(), e.run.outcome.class());
            out.nontrivial = true;
            return out;
        }
        out.trace_hash = e.hash ^ twin.hash.rotate_left(1);
        out.steps = e.steps + twin.steps;
        out.merge_fired(&e.fired);
        // (a) never panic / hang
        match &e.run.outcome {
            Outcome::Panic(p) => out.violations.push(viol("C10", "panic", format!("panicked: {}", p))),
            Outcome::Hang => out.violations.push(viol("C10", "hang", "step budget exceeded (bounded liveness)".into())),
            _ => {}
        }
        // (d) what has been written is a prefix of what the fault-free run writes
        if !expected.starts_with(&e.run.sink) {
            let at = e.run.sink.iter().zip(expected.iter()).position(|(a, b)| a != b).unwrap_or(expected.len().min(e.run.sink.len()));
            out.violations.push(viol("C10", "not_prefix", format!("sink ({} bytes) is not a prefix of the fault-free output ({} bytes); first difference at offset {}", e.run.sink.len(), expected.len(), at)));
        }
        match (&e.run.outcome, e.first_hard) {
            (Outcome::Panic(_), _) | (Outcome::Hang, _) => {}
            // (b) hard fault: error naming the failing side
            (Outcome::Ok(_), Some(side)) => {
                out.violations.push(viol("C10", "hard_fault_swallowed", format!("a hard {:?}-side fault fired but the operation reported success", side)));
            }
            (Outcome::Err(info), Some(side)) => {
                if info.side != side {
                    out.violations.push(viol("C10", "wrong_side", format!("hard fault on the {:?} side, error reported is {} ({:?}: {})", side, info.variant, info.side, info.message)));
                }
            }
            // (c) only transient interruptions fired
            (Outcome::Ok(_), None) => {
                if e.run.sink != expected {
                    out.violations.push(viol("C10", "ok_incomplete", format!("success reported but sink holds {} of {} bytes", e.run.sink.len(), expected.len())));
                }
            }
            (Outcome::Err(info), None) => {
                if !e.any_fault {
                    out.violations.push(viol("C10", "spurious_error", format!("no fault fired but the operation failed: {} ({})", info.variant, info.message)));
                } else if !e.transient_sides.contains(&info.side) {
                    out.violations.push(viol("C10", "wrong_side", format!("only transient faults on {:?} fired, error reported is {} ({:?})", e.transient_sides, info.variant, info.side)));
                }
            }
        }
        // a failed operation must leave nothing behind that changes the next one on the same thread
        if e.any_fault && matches!(e.run.outcome, Outcome::Err(_)) && twin.run.outcome.is_ok() {
            let again = exec_once(s, &input, false, monitor_for(s, &input));
            out.steps += again.steps;
            if !(again.run.outcome.is_ok() && again.run.sink == twin.run.sink) {
                out.violations.push(viol("C10", "state_left_by_failed_operation", format!("the fault-free operation, repeated right after the failed one on the same thread, gives {:?} with {} bytes (before the failure: {} bytes)", again.run.outcome.class(), again.run.sink.len(), twin.run.sink.len())));
                if s.dir == Dir::Dec && !pt.starts_with(&again.run.sink) {
                    out.violations.push(viol("C04", "bytes_of_an_earlier_decryption_released", format!("a decryption following a failed one wrote {} bytes that are not a prefix of its own plaintext", again.run.sink.len())));
                }
                if s.dir == Dir::Enc && again.run.outcome.is_ok() {
                    let want = s.mode.header_len() + 32 * again.nonempty_reads.max(1) + pt.len();
                    if again.run.sink.len() != want {
                        out.violations.push(viol("C08", "size_after_earlier_failure", format!("an encryption following a failed one produced {} bytes instead of {}", again.run.sink.len(), want)));
                    }
                }
            }
            if let Some(m) = again.monitor_violation {
                out.violations.push(viol("C04", "release_before_auth", m));
            }
            out.count("probe.rerun_after_failure", 1);
        }
        // a fault-free encryption over any conforming source must produce a file that the
        // independent reader decrypts to exactly the plaintext
        if !e.any_fault && s.dir == Dir::Enc && twin.run.outcome.is_ok() {
            let fixed = !matches!(&s.mode, Mode::Key { e_priv: None, .. } | Mode::Key { omit_e_pub: true, .. });
            let _ = fixed;
            let (v, _) = reference_verdict(&s.mode, &twin.run.sink, &mut |p, salt| ref_scrypt_cached(p, salt));
            if !v.accepted() || v.plaintext() != pt {
                out.violations.push(viol("C10", "fault_free_result_wrong", format!("fault-free encryption with read caps {:?} / write caps {:?} produced a file the reference reader {} (plaintext equal: {})", &s.rs.caps[..s.rs.caps.len().min(4)], &s.ws.caps[..s.ws.caps.len().min(4)], if v.accepted() { "accepts" } else { "rejects" }, v.plaintext() == pt)));
            }
            out.count("probe.fault_free_reference_read", 1);
        }
        // "the same result over any conforming source and sink": how the sink splits the output
        // across write calls must not change a single byte of it (checked on fault-free runs)
        if !e.any_fault && s.dir == Dir::Enc && !s.ws.caps.is_empty() && twin.run.outcome.is_ok() {
            let mut plain = s.clone();
            plain.ws.caps.clear();
            let p = exec_once(&plain, &input, false, None);
            out.steps += p.steps;
            if p.run.outcome.is_ok() && p.run.sink != twin.run.sink {
                let at = p.run.sink.iter().zip(twin.run.sink.iter()).position(|(a, b)| a != b).unwrap_or(p.run.sink.len().min(twin.run.sink.len()));
                out.violations.push(viol("C10", "result_depends_on_write_partition", format!("with write caps {:?} the output ({} bytes) differs from the output over an all-accepting sink ({} bytes), first at offset {}", &s.ws.caps[..s.ws.caps.len().min(4)], twin.run.sink.len(), p.run.sink.len(), at)));
            }
            out.count("probe.write_partition_cross_check", 1);
        }
        if let Some(m) = e.monitor_violation.or(twin.monitor_violation) {
            out.violations.push(viol("C04", "release_before_auth", m));
        }
        if s.dir == Dir::Dec {
            // C04 post-run: Ok only with the complete plaintext; Err leaves a whole-chunk prefix
            if e.run.outcome.is_ok() && e.run.sink != pt {
                out.violations.push(viol("C04", "ok_without_full_plaintext", format!("Ok with {} of {} plaintext bytes", e.run.sink.len(), pt.len())));
                // C03's second half: success means the destination holds the complete original plaintext
                out.violations.push(viol("C03", "success_with_incomplete_output", format!("decryption of an authentic file reported success, but the destination holds {} of {} plaintext bytes (faults {:?})", e.run.sink.len(), pt.len(), &e.fault_log[..e.fault_log.len().min(3)])));
            }
        }
        // C08: a file the encryptor reports as complete has exactly header + 32 per chunk + |P| bytes,
        // the chunk count being the number of non-empty reads it made - also after retried faults
        if s.dir == Dir::Enc && e.run.outcome.is_ok() {
            let want = s.mode.header_len() + 32 * e.nonempty_reads.max(1) + pt.len();
            if e.run.sink.len() != want {
                out.violations.push(viol("C08", "size_after_faults", format!("encryption reported success with a {}-byte file; {} header + 32 x {} chunks + {} plaintext bytes = {}", e.run.sink.len(), s.mode.header_len(), e.nonempty_reads.max(1), pt.len(), want)));
            }
        }
        if let Some(r) = e.seal_reuse.or(twin.seal_reuse) {
            out.violations.push(viol("C07", "nonce_reuse", r));
        }
        // reach probes
        if e.any_fault {
            out.count("probe.fault_fired_runs", 1);
        }
        if e.run.outcome.is_ok() && !e.transient_sides.is_empty() {
            out.count("probe.interrupted_then_ok", 1);
        }
        if let Outcome::Err(i) = &e.run.outcome {
            out.count(&format!("probe.err.{}", i.variant), 1);
        }
        let fault_sig: Vec<String> = e
            .fault_log
            .iter()
            .map(|(seam, call, kind)| {
                let total = match seam {
                    'r' => twin.run.reads,
                    'w' => twin.run.writes,
                    _ => twin.run.flushes,
                };
                format!("{}{:?}@{}", seam, kind, pos_class(*call, total))
            })
            .collect();
        out.signature = format!(
            "a2|{:?}|{}|{}|n{}|r{}|w{}|{}|{}",
            s.dir,
            s.mode.class(),
            len_class(s.plain.len, s.mode.cs()),
            s.chunking.len().min(4),
            caps_class(&s.rs.caps),
            caps_class(&s.ws.caps),
            fault_sig.join(","),
            e.run.outcome.class()
        );
        out.nontrivial = e.any_fault || !s.rs.caps.is_empty() || !s.ws.caps.is_empty();
        out
    }
}

pub fn pos_class(call: usize, total: usize) -> &'static str {
    if call == 0 {
        "first"
    } else if call + 1 == total {
        "last"
    } else if call >= total {
        "beyond"
    } else if call == 1 {
        "second"
    } else {
        "mid"
    }
}

pub fn caps_class(c: &[usize]) -> String {
    if c.is_empty() {
        "full".into()
    } else if c.iter().all(|x| *x == 1) {
        "ones".into()
    } else if c.len() == 1 {
        "const".into()
    } else {
        format!("mix{}", c.len().min(3))
    }
}

impl Family for A2 {
    type Scenario = Scn;
    fn name(&self) -> &'static str {
        "a2"
    }
    fn properties(&self) -> &'static [&'static str] {
        &["C10", "C04", "C07", "C08", "C03"]
    }
    fn budget(&self, tier: Tier, p: &str) -> u64 {
        let q = match p {
            "C10" => 1100,
            "C04" => 700,
            _ => 300,
        };
        q * match tier {
            Tier::Quick => 1,
            Tier::Thorough => 40,
        }
    }
    fn generate(&self, rng: &mut Rng, tier: Tier, _idx: u64) -> Scn {
        let dir = if rng.chance(1, 2) { Dir::Enc } else { Dir::Dec };
        // mostly hook mode at tiny chunk sizes; some key mode; pass mode rarely (scrypt-bound)
        let m = rng.below(100);
        let (mode, max_chunks) = if m < 80 {
            { let pa = rng.chance(1, 2); (gen_hook_mode(rng, pa), 4) }
        } else if m < 98 || tier == Tier::Quick && m < 99 {
            { let fx = dir == Dir::Dec || rng.chance(1, 2); (gen_key_mode(rng, fx), 2) }
        } else {
            (gen_pass_mode(rng), 1)
        };
        let cs = mode.cs();
        let plain = if cs == 65536 {
            // production chunk size: keep most plaintexts small, some multi-chunk
            if rng.chance(1, 6) {
                gen_plain(rng, cs, max_chunks)
            } else {
                Plain { len: rng.range(0, 300) as usize, fill_seed: rng.next_u64() }
            }
        } else {
            gen_plain(rng, cs, max_chunks)
        };
        let chunking = if dir == Dir::Dec { gen_chunking(rng, plain.len, cs) } else { vec![] };
        let (rcaps, _) = gen_caps(rng, cs);
        let (wcaps, _) = gen_caps(rng, cs);
        let mut rs = ReadScript { caps: rcaps, faults: vec![] };
        let mut ws = WriteScript { caps: wcaps, faults: vec![], flush_faults: vec![] };
        // keep a run to a few hundred seam calls: tiny caps on long inputs add cost, not states
        let floor = plain.len / 60;
        if floor > 1 {
            for c in rs.caps.iter_mut().chain(ws.caps.iter_mut()) {
                if *c < floor {
                    *c = floor + (*c % 3);
                }
            }
        }
        let mut chunking = chunking;
        if chunking.len() > 64 {
            chunking = full_chunking(plain.len, cs);
        }
        // every execution in password mode costs two scrypt evaluations: no neighbourhood enumeration there
        let enumerate = rng.chance(2, 3) && plain.len <= 5000 && !matches!(mode, Mode::Pass { .. });
        if !enumerate {
            // seeded multi-fault sequence, including interruption storms
            let nf = rng.range(1, 3);
            for _ in 0..nf {
                let kind_r = *rng.pick(&[IoFault::Interrupted, IoFault::Interrupted, IoFault::Hard, IoFault::WouldBlock]);
                let kind_w = *rng.pick(&[IoFault::Interrupted, IoFault::Interrupted, IoFault::Hard, IoFault::Zero, IoFault::WouldBlock]);
                match rng.below(4) {
                    0 => rs.faults.push((rng.usize_below(12), kind_r)),
                    1 => ws.faults.push((rng.usize_below(12), kind_w)),
                    2 => ws.flush_faults.push((rng.usize_below(5), *rng.pick(&[IoFault::Interrupted, IoFault::Hard]))),
                    _ => {
                        // storm: m consecutive interrupted calls, then quiet
                        let start = rng.usize_below(8);
                        let m = rng.range(2, 6) as usize;
                        for k in 0..m {
                            if rng.chance(1, 2) {
                                rs.faults.push((start + k, IoFault::Interrupted));
                            } else {
                                ws.faults.push((start + k, IoFault::Interrupted));
                            }
                        }
                    }
                }
            }
            rs.faults.sort();
            rs.faults.dedup_by_key(|f| f.0);
            ws.faults.sort();
            ws.faults.dedup_by_key(|f| f.0);
            ws.flush_faults.sort();
            ws.flush_faults.dedup_by_key(|f| f.0);
        }
        Scn { dir, mode, plain, chunking, rs, ws, entropy_tag: rng.next_u64(), enumerate }
    }

    fn execute(&self, s: &Scn) -> RunOut {
        self.judge(s)
    }

    fn execute_all(&self, base: &Scn, emit: &mut dyn FnMut(Scn, RunOut)) {
        if !base.enumerate {
            emit(base.clone(), self.judge(base));
            return;
        }
        // twin call counts decide the neighbourhood
        let (input, _) = build_input(base);
        let twin = exec_once(base, &input, false, None);
        let (r, w, f) = (twin.run.reads, twin.run.writes, twin.run.flushes);
        {
            let mut s0 = base.clone();
            s0.enumerate = false;
            let out0 = self.judge(&s0);
            emit(s0, out0);
        }
        let mut one = |rs: ReadScript, ws: WriteScript| {
            let mut s = base.clone();
            s.rs = rs;
            s.ws = ws;
            s.enumerate = false;
            let out = self.judge(&s);
            emit(s, out);
        };
        for k in 0..=r {
            for kind in [IoFault::Interrupted, IoFault::Hard, IoFault::WouldBlock] {
                let mut rs = base.rs.clone();
                rs.faults = vec![(k, kind)];
                one(rs, base.ws.clone());
            }
        }
        // the source signals end of input early at each read call (encryption only: a ciphertext
        // that ends early is a truncated artefact, i.e. a storage fault)
        if base.dir == Dir::Enc {
            for k in 0..r.min(40) {
                let mut rs = base.rs.clone();
                rs.faults = vec![(k, IoFault::EarlyEof)];
                one(rs, base.ws.clone());
            }
        }
        // bursts of consecutive interruptions starting at every read call (a signal storm)
        for k in 0..r.min(40) {
            for m in [2usize, 3, 4] {
                let mut rs = base.rs.clone();
                rs.faults = (0..m).map(|j| (k + j, IoFault::Interrupted)).collect();
                one(rs, base.ws.clone());
            }
        }
        for k in 0..=w {
            for kind in [IoFault::Interrupted, IoFault::Hard, IoFault::Zero, IoFault::WouldBlock] {
                let mut ws = base.ws.clone();
                ws.faults = vec![(k, kind)];
                one(base.rs.clone(), ws);
            }
        }
        for k in 0..=f {
            for kind in [IoFault::Interrupted, IoFault::Hard] {
                let mut ws = base.ws.clone();
                ws.flush_faults = vec![(k, kind)];
                one(base.rs.clone(), ws);
            }
        }
    }

    fn shrink(&self, s: &Scn) -> Vec<Scn> {
        let mut c = Vec::new();
        for i in 0..s.rs.faults.len() {
            let mut t = s.clone();
            t.rs.faults.remove(i);
            c.push(t);
        }
        for i in 0..s.ws.faults.len() {
            let mut t = s.clone();
            t.ws.faults.remove(i);
            c.push(t);
        }
        for i in 0..s.ws.flush_faults.len() {
            let mut t = s.clone();
            t.ws.flush_faults.remove(i);
            c.push(t);
        }
        if !s.rs.caps.is_empty() {
            let mut t = s.clone();
            t.rs.caps.clear();
            c.push(t);
        }
        if !s.ws.caps.is_empty() {
            let mut t = s.clone();
            t.ws.caps.clear();
            c.push(t);
        }
        for nl in [0usize, 1, s.plain.len / 2, s.plain.len.saturating_sub(1)] {
            if nl < s.plain.len {
                let mut t = s.clone();
                t.plain.len = nl;
                if t.dir == Dir::Dec {
                    t.chunking = full_chunking(nl, t.mode.cs());
                }
                c.push(t);
            }
        }
        if s.dir == Dir::Dec && s.chunking != full_chunking(s.plain.len, s.mode.cs()) {
            let mut t = s.clone();
            t.chunking = full_chunking(s.plain.len, s.mode.cs());
            c.push(t);
        }
        if let Mode::Hook { key, aad, cs } = &s.mode {
            if !aad.0.is_empty() {
                let mut t = s.clone();
                t.mode = Mode::Hook { key: key.clone(), aad: crate::hx::Hx(vec![]), cs: *cs };
                c.push(t);
            }
        }
        // shift faults to earlier calls
        for i in 0..s.rs.faults.len() {
            if s.rs.faults[i].0 > 0 {
                let mut t = s.clone();
                t.rs.faults[i].0 -= 1;
                c.push(t);
            }
        }
        for i in 0..s.ws.faults.len() {
            if s.ws.faults[i].0 > 0 {
                let mut t = s.clone();
                t.ws.faults[i].0 -= 1;
                c.push(t);
            }
        }
        c
    }
    fn real_components(&self) -> Vec<&'static str> {
        vec!["kestrel-crypto (working tree): encrypt.rs, decrypt.rs, noise.rs, lib.rs, scrypt.rs, errors.rs", "orion", "zeroize", "std::io::{Read::read_exact, Write::write_all}"]
    }
    fn simulated_components(&self) -> Vec<&'static str> {
        vec!["plaintext/ciphertext source (ScriptedSource)", "sink (ScriptedSink)", "OS entropy (seeded hash stream through the verif hook)", "ciphertext producer for decrypt runs (reference writer)"]
    }
}

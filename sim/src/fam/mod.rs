pub mod a1;
pub mod a2;
pub mod a3;
pub mod a4;
pub mod a5;
pub mod a6;
pub mod a7;

pub mod a2;

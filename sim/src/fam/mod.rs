pub mod a1;
pub mod a2;
pub mod a3;

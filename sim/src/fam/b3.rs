//! Family B3 "keygen histories": sequences of `kestrel key generate -o F` over one keyring
//! file, from several initial states. After every step the previous contents must be a byte
//! prefix of the new contents, the file must parse (reference parser and kestrel itself), and
//! every key generated so far must be present and usable with its own password. Decides C14;
//! also the tool-written-keyring clause of C17 and the key-generation clause of C07.

use crate::cli::*;
use crate::engine::*;
use crate::refmodel::{format as rf, keyring as rk, prims as rp};
use crate::rng::Rng;
use serde::{Deserialize, Serialize};

#[derive(Serialize, Deserialize, Clone, Debug, PartialEq)]
pub enum Initial {
    Absent,
    Empty,
    /// an existing one-key keyring written by the reference
    OneKey { trailing_newline: bool, comments: bool, crlf: bool },
    /// a one-key keyring whose comment contains a Latin-1 byte (not UTF-8): kestrel cannot *load* it,
    /// but generating into it must still only append
    Latin1Comment,
    /// the -o path holds something that is not a keyring at all
    NotAKeyring,
    /// the -o path is a symbolic link to the real keyring file (a dotfiles layout)
    Symlink,
    /// an existing keyring larger than any I/O buffer: one key followed by a comment block of this many bytes
    Big { comment_bytes: usize },
}

#[derive(Serialize, Deserialize, Clone, Debug)]
pub struct Gen {
    pub name: String,
    pub password: String,
    /// a name the tool must refuse (empty, too long, with a tab): the file must stay as it is
    pub invalid: bool,
    /// syscall fault on the keyring file during this generation: (k-th write, errno, per-write cap)
    #[serde(default)]
    pub fault: Option<(u32, i32, u32)>,
}

#[derive(Serialize, Deserialize, Clone, Debug)]
pub struct Scn {
    pub initial: Initial,
    pub gens: Vec<Gen>,
    pub seed: u64,
    pub use_keys: bool,
    pub os_rng: bool,
    /// about half of the invocations type their passwords at the prompt on a controlling terminal
    #[serde(default)]
    pub typed_pass: bool,
}

fn typed(s: &Scn, k: usize) -> bool {
    let mut t = s.seed ^ (k as u64).wrapping_mul(0x7479_7065);
    s.typed_pass && crate::rng::splitmix(&mut t) % 2 == 0
}

pub struct B3;

fn gen_cli_password(rng: &mut Rng) -> String {
    match rng.below(9) {
        7 => "ends with newline\n".into(),
        8 => "tab\tand crlf\r\n".into(),
        0 => String::new(),
        1 => "a".into(),
        2 => "x".repeat(64),
        3 => "y".repeat(65),
        4 => "pässwörd-パスワード-🔑".into(),
        5 => " leading and trailing ".into(),
        _ => format!("pw{}", rng.below(1_000_000)),
    }
}

fn gen_cli_name(rng: &mut Rng, k: usize) -> (String, bool) {
    match rng.below(16) {
        0 => (String::new(), true),
        1 => (if rng.chance(1, 2) { "n".repeat(129) } else { "\u{e9}".repeat(100) }, true),
        2 => (format!("tab\tname{}", k), true),
        3 => (format!("{}{}", "m".repeat(120), format!("{:08}", k)), false), // exactly 128 bytes
        4 => (format!("k=v {}", k), false),
        5 => (format!("# hash {}", k), false),
        6 => (format!("[Key] {}", k), false),
        7 => (format!("Zoë 鍵 {}", k), false),
        8 => (format!("Name = inner {}", k), false),
        9 => (format!("two  spaces {}", k), false),
        _ => (format!("user{}-{}", k, rng.below(100000)), false),
    }
}

impl Family for B3 {
    type Scenario = Scn;
    fn name(&self) -> &'static str {
        "b3"
    }
    fn properties(&self) -> &'static [&'static str] {
        &["C14", "C17", "C07", "C13"]
    }
    fn budget(&self, tier: Tier, p: &str) -> u64 {
        let q = match p {
            "C14" => 90,
            "C13" => 40,
            _ => 20,
        };
        q * match tier {
            Tier::Quick => 1,
            Tier::Thorough => 15,
        }
    }
    fn generate(&self, rng: &mut Rng, _tier: Tier, idx: u64) -> Scn {
        let initial = match idx % 6 {
            0 => Initial::Absent,
            1 => Initial::Empty,
            2 => Initial::OneKey { trailing_newline: true, comments: false, crlf: false },
            3 => Initial::OneKey { trailing_newline: false, comments: false, crlf: false },
            4 => Initial::OneKey { trailing_newline: true, comments: true, crlf: false },
            _ => {
                if rng.chance(1, 6) {
                    Initial::NotAKeyring
                } else if rng.chance(1, 5) {
                    Initial::Symlink
                } else if rng.chance(1, 5) {
                    Initial::Latin1Comment
                } else if rng.chance(1, 3) {
                    Initial::Big { comment_bytes: *rng.pick(&[7000usize, 8192, 9000, 20000, 70000]) }
                } else {
                    Initial::OneKey { trailing_newline: rng.chance(1, 2), comments: rng.chance(1, 2), crlf: rng.chance(1, 3) }
                }
            }
        };
        let n = rng.range(1, 5) as usize;
        let mut gens = vec![];
        for k in 0..n {
            let (mut name, invalid) = gen_cli_name(rng, k);
            if k > 0 && !invalid && rng.chance(1, 6) {
                // same letters as an earlier valid name, other case: a different name
                if let Some(prev) = gens.iter().rev().find(|g: &&Gen| !g.invalid && g.name.chars().any(|c| c.is_ascii_alphabetic())) {
                    let flipped: String = prev.name.chars().map(|c| if c.is_ascii_lowercase() { c.to_ascii_uppercase() } else { c.to_ascii_lowercase() }).collect();
                    if !gens.iter().any(|g| g.name == flipped) {
                        name = flipped;
                    }
                }
            }
            let fault = if !invalid && rng.chance(1, 8) { Some((rng.below(3) as u32, *rng.pick(&[28i32, 5, 27]), *rng.pick(&[0u32, 1, 10, 100]))) } else { None };
            gens.push(Gen { name, password: gen_cli_password(rng), invalid, fault });
        }
        let mut scn = Scn { initial, gens, seed: rng.next_u64(), use_keys: rng.chance(1, 2), os_rng: rng.chance(1, 4), typed_pass: false };
        scn.typed_pass = (scn.seed >> 5) & 3 == 1; // derived, not drawn
        scn
    }
    fn execute(&self, s: &Scn) -> RunOut {
        let mut out = RunOut::default();
        out.props = vec!["C14", "C17", "C07", "C13"];
        let sb = Sandbox::new("b3");
        let mut r = Rng::new(s.seed);
        let mut th = 0u64;
        // the keyring's file name varies: no extension, a temporary-looking one, a space, a dot file
        let mut f: &str = ["keys.txt", "keyring", "keyring.tmp", "my keys.txt", ".keyring", "keys.txt.bak"][(s.seed % 6) as usize];
        // ... or sits in a directory, one of them literally named "~" (kestrel is not a shell: no expansion)
        match (s.seed >> 20) % 10 {
            0 => {
                let _ = std::fs::create_dir_all(sb.dir.join("~"));
                f = "~/keys.txt";
            }
            1 => {
                let _ = std::fs::create_dir_all(sb.dir.join("sub dir"));
                f = "sub dir/keys.txt";
            }
            _ => {}
        }
        let init_sk = r.arr32();
        let init_name = "initial-key-000";
        let init_pw = "initial pw";
        let mut known: Vec<(String, String)> = vec![]; // (name, password) of every key that must be in F
        let mut latin1 = false;
        match &s.initial {
            Initial::Absent => {}
            Initial::Empty => sb.write(f, b""),
            Initial::OneKey { trailing_newline, comments, crlf } => {
                let mut t = keyring_text(&[KeySpec { name: init_name.into(), sk: init_sk, password: Some(init_pw.into()), salt: r.arr32() }]);
                if *comments {
                    t = format!("# my keyring\n\n{}# end of first key\n", t);
                }
                if !*trailing_newline {
                    while t.ends_with('\n') {
                        t.pop();
                    }
                }
                if *crlf {
                    t = t.replace('\n', "\r\n");
                }
                sb.write(f, t.as_bytes());
                known.push((init_name.into(), init_pw.into()));
            }
            Initial::NotAKeyring => {
                sb.write(f, b"shopping list\n- milk\n- eggs\n");
                latin1 = true; // prefix preservation only
            }
            Initial::Symlink => {
                let t = keyring_text(&[KeySpec { name: init_name.into(), sk: init_sk, password: Some(init_pw.into()), salt: r.arr32() }]);
                sb.write("real-keyring.txt", t.as_bytes());
                let _ = std::os::unix::fs::symlink(if f.contains('/') { "../real-keyring.txt" } else { "real-keyring.txt" }, sb.dir.join(f));
                known.push((init_name.into(), init_pw.into()));
            }
            Initial::Latin1Comment => {
                let t = keyring_text(&[KeySpec { name: init_name.into(), sk: init_sk, password: Some(init_pw.into()), salt: r.arr32() }]);
                let mut b = b"# caf\xe9 keys\n".to_vec();
                b.extend_from_slice(t.as_bytes());
                sb.write(f, &b);
                latin1 = true;
            }
            Initial::Big { comment_bytes } => {
                let mut t = keyring_text(&[KeySpec { name: init_name.into(), sk: init_sk, password: Some(init_pw.into()), salt: r.arr32() }]);
                t.push_str("\n# ");
                while t.len() < *comment_bytes {
                    t.push_str("a long comment line in the keyring that pushes its size past the I/O buffer\n# ");
                }
                t.push('\n');
                sb.write(f, t.as_bytes());
                known.push((init_name.into(), init_pw.into()));
            }
        }
        let mut salts: Vec<Vec<u8>> = vec![];
        let mut sks: Vec<[u8; 32]> = vec![];
        let mut torn = false;
        for (k, g) in s.gens.iter().enumerate() {
            let before = sb.read(f);
            let mut inv = Invocation::new(&["key", "generate", "-o", f, "--env-pass"]).env("KESTREL_PASSWORD", &g.password);
            let line = format!("{}\n", g.name).into_bytes();
            // a third of the names arrive in two or three pieces (someone typing into a pipe, a slow producer)
            let mut t = s.seed ^ (k as u64 + 1).wrapping_mul(0x7069_6563);
            inv.stdin = if crate::rng::splitmix(&mut t) % 3 == 0 && line.len() >= 3 {
                let a = 1 + (crate::rng::splitmix(&mut t) as usize) % (line.len() - 2);
                let b = a + 1 + (crate::rng::splitmix(&mut t) as usize) % (line.len() - a - 1).max(1);
                let mut pieces = vec![line[..a].to_vec()];
                if b < line.len() && crate::rng::splitmix(&mut t) % 2 == 0 {
                    pieces.push(line[a..b].to_vec());
                    pieces.push(line[b..].to_vec());
                } else {
                    pieces.push(line[a..].to_vec());
                }
                out.count("probe.name_fed_in_pieces", 1);
                Stdin::Pieces(pieces)
            } else {
                Stdin::Pipe(line)
            };
            inv.pass_via_tty = typed(s, k);
            inv.entropy_seed = if s.os_rng { None } else { Some(s.seed ^ (k as u64 + 1) * 0x9E37) };
            if let Some((kth, errno, cap)) = g.fault {
                // (the shim's file class goes by the base name)
                let fb = f.rsplit('/').next().unwrap_or(f);
                let mut plan = if errno == 27 { format!("f={}:r:{}:E5", fb, kth) } else { format!("f={}:w:{}:E{}", fb, kth, errno) };
                if cap > 0 {
                    plan.push_str(&format!(";f={}:w:*:C{}", fb, cap));
                }
                inv.fault_plan = Some(plan);
            }
            let fin = run(&sb, &inv);
            let fault_fired = String::from_utf8_lossy(&fin.shim_log).contains("inject errno=");
            if fault_fired {
                // a generation that hits ENOSPC/EIO/EFBIG on the keyring may fail, but it must not
                // destroy what the keyring already held
                out.count("fault.syscall.keyring_write_error", 1);
                let now = sb.read(f).unwrap_or_default();
                let was = before.clone().unwrap_or_default();
                if !now.starts_with(&was) {
                    out.violations.push(viol("C14", "write_fault_destroyed_existing_keys", format!("step {} (name {:?}): a write error while adding a key left {} bytes where {} bytes of keyring were (earlier contents are not a prefix any more)", k, g.name, now.len(), was.len())));
                }
                if fin.status == Status::Exit(0) {
                    out.violations.push(viol("C14", "write_fault_swallowed", format!("step {}: the write error was injected but key generation exited 0", k)));
                }
                // the tail may now be a torn [Key] section: stop the history here
                torn = true;
                break;
            }
            if !s.os_rng {
                th = th.rotate_left(11) ^ fin.digest();
            }
            let after = sb.read(f);
            let step = format!("step {} (name {:?})", k, g.name);
            // C13: a generation that reports failure has not touched the file
            if fin.status != Status::Exit(0) && before != after && !String::from_utf8_lossy(&fin.shim_log).contains("inject errno=") {
                out.violations.push(viol("C13", "failed_generation_changed_the_file", format!("{}: `key generate` exited {:?} but the keyring went from {:?} to {:?} bytes", step, fin.status, before.as_ref().map(|b| b.len()), after.as_ref().map(|b| b.len()))));
            }
            if g.invalid {
                if fin.status != Status::Exit(1) || !fin.has_error_line() {
                    out.violations.push(viol("C14", "invalid_name_not_refused", format!("{}: expected exit 1 with an error, got {:?}", step, fin.status)));
                }
                if before != after {
                    out.violations.push(viol("C14", "refused_generation_changed_file", format!("{}: the keyring changed although generation was refused", step)));
                }
                continue;
            }
            if fin.status != Status::Exit(0) {
                out.violations.push(viol("C14", "generate_failed", format!("{}: {:?}: {}", step, fin.status, fin.stderr_text())));
                continue;
            }
            known.push((g.name.trim().to_string(), g.password.clone()));
            let after = after.unwrap_or_default();
            // 1. earlier contents are a byte prefix of the new contents
            let before_b = before.unwrap_or_default();
            if !after.starts_with(&before_b) {
                out.violations.push(viol("C14", "earlier_contents_not_preserved", format!("{}: the {} bytes already in the keyring are not a prefix of its {} bytes now (generating into an existing file replaced or rewrote it)", step, before_b.len(), after.len())));
            }
            if after.len() <= before_b.len() {
                out.violations.push(viol("C14", "nothing_added", format!("{}: file did not grow", step)));
            }
            if latin1 {
                continue; // not loadable as a keyring by design of this initial state: prefix preservation only
            }
            // 2. parses as a keyring; every key generated so far is present
            let text = String::from_utf8_lossy(&after).to_string();
            match rk::parse(&text) {
                None => {
                    out.violations.push(viol("C14", "file_no_longer_parses", format!("{}: the keyring no longer parses:\n{}", step, text.chars().take(600).collect::<String>())));
                    // it parsed before this generation: what the tool has just written is not a keyring
                    out.violations.push(viol("C17", "tool_written_keyring_does_not_parse", format!("{}: the keyring parsed before this key generation and does not parse after it", step)));
                }
                Some(entries) => {
                    for (name, _) in &known {
                        if !entries.iter().any(|e| e.name == *name) {
                            out.violations.push(viol("C14", "earlier_key_missing", format!("{}: key {:?} is no longer in the keyring (entries: {:?})", step, name, entries.iter().map(|e| e.name.clone()).collect::<Vec<_>>())));
                            out.violations.push(viol("C17", "tool_written_keyring_lost_an_entry", format!("{}: the file the tool wrote parses back without {:?}, which the tool had written there before (entries: {:?})", step, name, entries.iter().map(|e| e.name.clone()).collect::<Vec<_>>())));
                        }
                    }
                    // C17: what the tool wrote parses back to exactly the name that was given
                    if let Some(e) = entries.last() {
                        if e.name != g.name.trim() {
                            out.violations.push(viol("C17", "written_name_reads_back_different", format!("{}: written under {:?}, parses back as {:?}", step, g.name, e.name)));
                        }
                        if let Some(p) = &e.private {
                            if let Some((salt, _)) = rk::parse_locked(p) {
                                if salt == [0u8; 32] {
                                    out.violations.push(viol("C07", "cli_salt_not_random", format!("{}: the locked key's salt is all zero", step)));
                                }
                                if salts.contains(&salt.to_vec()) {
                                    out.violations.push(viol("C07", "cli_salt_reused", format!("{}: key generation reused a salt", step)));
                                }
                                salts.push(salt.to_vec());
                            }
                        }
                    }
                }
            }
        }
        // 3. every key is usable with its own password (reference unlock = private key matches its public key)
        let final_text = sb.read(f).map(|b| String::from_utf8_lossy(&b).to_string()).unwrap_or_default();
        if latin1 {
            // nothing more to check
        } else if let Some(entries) = rk::parse(&final_text) {
            for (name, pw) in &known {
                if let Some(e) = entries.iter().find(|e| e.name == *name) {
                    let sk = e.private.as_ref().and_then(|p| rk::unlock_with(p, &mut |salt| crate::ops::ref_scrypt_cached(pw.as_bytes(), salt)));
                    match sk {
                        Some(sk) => {
                            if rk::decode_pk(&e.public) != Some(rp::x25519_base(&sk)) {
                                out.violations.push(viol("C14", "public_key_does_not_match_private", format!("key {:?}", name)));
                            }
                            if sks.contains(&sk) {
                                out.violations.push(viol("C07", "cli_private_key_repeated", format!("two generated keys are equal ({:?})", name)));
                            }
                            sks.push(sk);
                        }
                        None => out.violations.push(viol("C14", "key_not_usable_with_its_password", format!("key {:?} does not unlock with the password it was generated with", name))),
                    }
                }
            }
            // and through kestrel itself: encrypt from the first to the last key, decrypt as the last
            if s.use_keys && known.len() >= 2 {
                let (from, to) = (&known[0], &known[known.len() - 1]);
                sb.write("msg.txt", b"keyring still works");
                let mut enc_inv = Invocation::new(&["encrypt", "msg.txt", "-t", &to.0, "-f", &from.0, "-o", "msg.ktl", "-k", f, "--env-pass"]).env("KESTREL_PASSWORD", &from.1);
                let mut dec_inv = Invocation::new(&["decrypt", "msg.ktl", "-t", &to.0, "-o", "msg.out", "-k", f, "--env-pass"]).env("KESTREL_PASSWORD", &to.1);
                enc_inv.pass_via_tty = typed(s, 1000);
                dec_inv.pass_via_tty = typed(s, 1001);
                let enc = run(&sb, &enc_inv);
                let dec = run(&sb, &dec_inv);
                if !s.os_rng {
                    th = th.rotate_left(3) ^ enc.digest() ^ dec.digest().rotate_left(1);
                }
                let ok = enc.status == Status::Exit(0) && dec.status == Status::Exit(0) && sb.read("msg.out").as_deref() == Some(b"keyring still works") && dec.stderr_text().contains(&format!("File from: {}", from.0));
                if !ok {
                    out.violations.push(viol("C14", "keys_not_usable_through_the_tool", format!("encrypt {:?} -> {:?} / decrypt failed: enc {:?} {} dec {:?} {}", from.0, to.0, enc.status, enc.stderr_text().chars().take(200).collect::<String>(), dec.status, dec.stderr_text().chars().take(200).collect::<String>())));
                }
                let _ = rf::MAGIC_KEY;
            }
        } else if !known.is_empty() && !torn {
            out.violations.push(viol("C14", "file_no_longer_parses", "final keyring does not parse".into()));
        }
        out.count("probe.generations", s.gens.len() as u64);
        out.count("probe.refused_names", s.gens.iter().filter(|g| g.invalid).count() as u64);
        out.trace_hash = th;
        out.steps = s.gens.len() as u64;
        out.signature = format!("b3|{:?}|{}|{}", s.initial, s.gens.iter().map(|g| if g.invalid { 'x' } else { crate::gen::name_class(&g.name).chars().next().unwrap() }).collect::<String>(), s.use_keys);
        out.nontrivial = s.gens.len() >= 2 || s.initial != Initial::Absent;
        out
    }
    fn shrink(&self, s: &Scn) -> Vec<Scn> {
        let mut c = vec![];
        for i in 0..s.gens.len() {
            if s.gens.len() > 1 {
                let mut t = s.clone();
                t.gens.remove(i);
                c.push(t);
            }
        }
        if s.typed_pass {
            let mut t = s.clone();
            t.typed_pass = false;
            c.push(t);
        }
        if s.use_keys {
            let mut t = s.clone();
            t.use_keys = false;
            c.push(t);
        }
        if s.initial != Initial::Absent {
            let mut t = s.clone();
            t.initial = Initial::Absent;
            c.push(t);
        }
        for i in 0..s.gens.len() {
            if s.gens[i].password != "pw" {
                let mut t = s.clone();
                t.gens[i].password = "pw".into();
                c.push(t);
            }
        }
        c
    }
    fn real_components(&self) -> Vec<&'static str> {
        vec!["the kestrel binary built from the working tree: key generate, encrypt, decrypt", "the kernel's file system inside the sandbox directory"]
    }
    fn simulated_components(&self) -> Vec<&'static str> {
        vec!["the invoking shell (argv, environment, key name on stdin)", "initial state of the keyring file (absent, empty, reference-written)", "seeded OS entropy (real OS RNG in a quarter of the histories)", "reference keyring parser and unlock"]
    }
}

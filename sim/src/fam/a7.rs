//! Family A7 "zeroize programs": generated construct / clone / move / drop programs over a small
//! pool of key containers, plus library steps that clone and drop internally (including on
//! error paths). The allocator seam snapshots a watched block at the moment it is released;
//! inline containers live in harness-owned slots that are read back after drop_in_place.
//! Decides C20.

use crate::alloc;
use crate::engine::*;
use crate::hx::Hx;
use crate::ops::*;
use crate::rng::Rng;
use crate::seams::*;
use kestrel_crypto::{PayloadKey, PrivateKey, PublicKey};
use serde::{Deserialize, Serialize};
use std::mem::MaybeUninit;

#[derive(Serialize, Deserialize, Clone, Debug)]
pub enum Step {
    /// PrivateKey::generate() on the entropy seam
    Generate,
    /// PrivateKey::try_from(bytes)
    FromBytes(Hx),
    /// PayloadKey::new(bytes) in a harness-owned slot
    Payload(Hx),
    /// Box<PayloadKey>: the container itself lives in an allocator block
    BoxedPayload(Hx),
    Clone(usize),
    /// move the value to a new slot (the old slot becomes empty)
    Move(usize),
    Drop(usize),
    /// slots[a].clone_from(&slots[b]): the value a held before is replaced and must be erased
    CloneFrom(usize, usize),
    /// the container is dropped while a panic unwinds through its owner (the panic is caught)
    DropInPanic(usize),
    /// noise_encrypt to a small-order recipient: fails after cloning sender (and ephemeral)
    LibNoiseSmallOrder(usize),
    /// key_encrypt with a hard I/O fault at the given write call (error path drops)
    LibEncryptFault(usize, usize),
    /// key_encrypt then key_decrypt with a hard read fault at the given call
    LibDecryptFault(usize, usize),
}

#[derive(Serialize, Deserialize, Clone, Debug)]
pub struct Scn {
    pub steps: Vec<Step>,
    pub entropy_tag: u64,
}

enum Slot {
    Priv(PrivateKey),
    /// an inline PayloadKey living at `off` bytes into a harness-owned, 16-byte aligned buffer
    /// (PayloadKey has alignment 1: inside an Option or after a u8 it sits at odd addresses)
    Pay(Box<PayBuf>, usize),
    BoxPay(Box<PayloadKey>),
}

#[repr(align(16))]
struct PayBuf([MaybeUninit<u8>; 64]);

fn pay_new(key: PayloadKey, off: usize) -> Slot {
    let mut b = Box::new(PayBuf([MaybeUninit::uninit(); 64]));
    // any offset the type's alignment allows (1 for a plain byte array, 8 if it ever holds a pointer)
    let al = std::mem::align_of::<PayloadKey>().max(1);
    let off = (off % 16) / al * al;
    unsafe { std::ptr::write((b.0.as_mut_ptr() as *mut u8).add(off) as *mut PayloadKey, key) };
    Slot::Pay(b, off)
}

fn pay_ptr(b: &mut Box<PayBuf>, off: usize) -> *mut PayloadKey {
    unsafe { (b.0.as_mut_ptr() as *mut u8).add(off) as *mut PayloadKey }
}

pub struct A7;

fn nonzero(b: &[u8]) -> bool {
    b.iter().any(|x| *x != 0)
}

impl Family for A7 {
    type Scenario = Scn;
    fn name(&self) -> &'static str {
        "a7"
    }
    fn properties(&self) -> &'static [&'static str] {
        &["C20"]
    }
    fn budget(&self, tier: Tier, _p: &str) -> u64 {
        match tier {
            Tier::Quick => 200000,
            Tier::Thorough => 4000000,
        }
    }
    fn generate(&self, rng: &mut Rng, _tier: Tier, idx: u64) -> Scn {
        let mut steps = vec![];
        let key = |rng: &mut Rng| {
            let mut b = match rng.below(12) {
                // key shapes with structure: repeated byte, bytes that XOR / sum to zero, mostly zero
                0 => vec![*rng.pick(&[0x5au8, 0xff, 0x01, 0x80]); 32],
                1 => {
                    let mut v = rng.bytes(32);
                    let x = v[..31].iter().fold(0u8, |a, b| a ^ b);
                    v[31] = x;
                    v
                }
                2 => {
                    let mut v = vec![0u8; 32];
                    v[rng.usize_below(32)] = 1 + rng.below(255) as u8;
                    v
                }
                _ => rng.bytes(32),
            };
            if b.iter().all(|x| *x == 0) {
                b[0] = 1; // never all-zero: a watch on an all-zero key would prove nothing
            }
            Hx(b)
        };
        if idx % 3 == 0 {
            // one container, up to three clones, every drop order reachable: a permutation
            let ctor = match rng.below(4) {
                0 => Step::Generate,
                1 => Step::FromBytes(key(rng)),
                2 => Step::Payload(key(rng)),
                _ => Step::BoxedPayload(key(rng)),
            };
            steps.push(ctor);
            let n = rng.range(0, 3) as usize;
            for _ in 0..n {
                let live = steps.len();
                steps.push(Step::Clone(rng.usize_below(live)));
            }
            let mut order: Vec<usize> = (0..=n).collect();
            for i in (1..order.len()).rev() {
                order.swap(i, rng.usize_below(i + 1));
            }
            for o in order {
                steps.push(if rng.chance(1, 5) { Step::DropInPanic(o) } else { Step::Drop(o) });
            }
        } else {
            let n = rng.range(3, 14);
            let mut slots = 0usize;
            for _ in 0..n {
                let r = rng.below(20);
                let st = match r {
                    0..=1 => Step::Generate,
                    2..=3 => Step::FromBytes(key(rng)),
                    4..=5 => Step::Payload(key(rng)),
                    6 => Step::BoxedPayload(key(rng)),
                    7..=10 if slots > 0 => Step::Clone(rng.usize_below(slots)),
                    11..=12 if slots > 0 => Step::Move(rng.usize_below(slots)),
                    13..=14 if slots > 0 => Step::Drop(rng.usize_below(slots)),
                    15 if slots > 1 => Step::CloneFrom(rng.usize_below(slots), rng.usize_below(slots)),
                    16 if slots > 0 => Step::DropInPanic(rng.usize_below(slots)),
                    17 if slots > 0 => Step::LibNoiseSmallOrder(rng.usize_below(slots)),
                    18 if slots > 0 => Step::LibEncryptFault(rng.usize_below(slots), rng.usize_below(6)),
                    19 if slots > 0 => Step::LibDecryptFault(rng.usize_below(slots), rng.usize_below(8)),
                    _ => Step::FromBytes(key(rng)),
                };
                if matches!(st, Step::Generate | Step::FromBytes(_) | Step::Payload(_) | Step::BoxedPayload(_) | Step::Clone(_) | Step::Move(_)) {
                    slots += 1;
                }
                steps.push(st);
            }
        }
        Scn { steps, entropy_tag: rng.next_u64() }
    }

    fn execute(&self, s: &Scn) -> RunOut {
        let mut out = RunOut::default();
        out.props = vec!["C20"];
        let trace = Trace::new(100_000, false);
        let _ent = install_entropy(s.entropy_tag, trace.clone());
        let mut slots: Vec<Option<Slot>> = vec![];
        let mut sig = String::new();
        let mut checked = 0u64;
        alloc::clear_watches();
        let mut drop_slot = |slot: Slot, out: &mut RunOut, at: usize| {
            alloc::clear_watches();
            match slot {
                Slot::Priv(k) => {
                    let before = k.as_bytes().to_vec();
                    // The value is dropped in a harness-owned slot so that the container's OWN bytes
                    // (not only the heap block it points to) can be inspected afterwards; half of the
                    // keys take part in a key exchange first, so that lazily filled fields are filled.
                    let mut slot: Box<MaybeUninit<PrivateKey>> = Box::new(MaybeUninit::uninit());
                    slot.write(k);
                    let kp = slot.as_mut_ptr();
                    if before[2] & 1 == 1 {
                        let mut base = [0u8; 32];
                        base[0] = 9;
                        let bp = PublicKey::try_from(&base[..]).unwrap();
                        let _ = unsafe { (*kp).diffie_hellman(&bp) };
                        let _ = unsafe { (*kp).to_public() };
                    }
                    let w = alloc::watch(unsafe { (*kp).as_bytes().as_ptr() }, 32);
                    unsafe { std::ptr::drop_in_place(kp) };
                    let ws = alloc::watched(w);
                    // secret material inside the container itself: any 8-byte window of the key or of its
                    // clamped scalar form
                    let raw: &[u8] = unsafe { std::slice::from_raw_parts(kp as *const u8, std::mem::size_of::<PrivateKey>()) };
                    let mut clamped = before.clone();
                    clamped[0] &= 248;
                    clamped[31] &= 127;
                    clamped[31] |= 64;
                    let distinctive = |w8: &[u8]| w8.iter().filter(|b| **b != 0).count() >= 6;
                    let leaked = raw.windows(8).any(|w8| distinctive(w8) && (before.windows(8).any(|x| x == w8) || clamped.windows(8).any(|x| x == w8)));
                    if leaked {
                        out.violations.push(viol("C20", "private_key_container_keeps_secret_bytes", format!("step {}: after drop, the {} bytes of the PrivateKey value itself still contain key material", at, raw.len())));
                    }
                    if !ws.freed {
                        // shared or deferred release is not a violation: nothing has been handed back yet
                        out.count("probe.key_block_not_released_at_drop", 1);
                    } else if nonzero(&ws.snap[..32]) {
                        out.violations.push(viol("C20", "private_key_not_erased", format!("step {}: PrivateKey block released with {} non-zero bytes of the secret still in it (first bytes {})", at, ws.snap[..32].iter().filter(|b| **b != 0).count(), crate::hx::to_hex(&ws.snap[..4]))));
                    }
                    if !nonzero(&before) {
                        out.count("probe.watched_key_was_already_zero", 1);
                    }
                }
                Slot::Pay(mut b, off) => {
                    let p = pay_ptr(&mut b, off);
                    let key_before: Vec<u8> = unsafe { (*p).as_bytes().to_vec() };
                    let before = key_before.clone();
                    unsafe { std::ptr::drop_in_place(p) };
                    // the slot is harness-owned memory: read it back after the destructor ran
                    // the bytes the container itself occupied: no 4-byte window of the key may survive there
                    // (a container that holds its key elsewhere leaves a pointer here, which is not a secret)
                    let n = std::mem::size_of::<PayloadKey>().min(48);
                    let after: Vec<u8> = (0..n).map(|i| unsafe { std::ptr::read_volatile((p as *const u8).add(i)) }).collect();
                    let leaked = after.windows(4).filter(|w4| w4.iter().any(|b| *b != 0) && key_before.windows(4).any(|x| x == *w4)).count();
                    if leaked > 0 {
                        out.violations.push(viol("C20", "payload_key_not_erased", format!("step {}: after drop the memory of the PayloadKey (at address offset {} mod 16) still holds {} four-byte windows of the key", at, off, leaked)));
                    }
                    if !nonzero(&before) {
                        out.count("probe.watched_key_was_already_zero", 1);
                    }
                }
                Slot::BoxPay(b) => {
                    let w = alloc::watch(b.as_bytes().as_ptr(), 32);
                    drop(b);
                    let ws = alloc::watched(w);
                    if !ws.freed {
                        out.count("probe.key_block_not_released_at_drop", 1);
                    } else if nonzero(&ws.snap[..32]) {
                        out.violations.push(viol("C20", "payload_key_not_erased", format!("step {}: boxed PayloadKey block released with non-zero secret bytes", at)));
                    }
                }
            }
            alloc::clear_watches();
        };
        for (i, st) in s.steps.iter().enumerate() {
            match st {
                Step::Generate => {
                    sig.push('G');
                    match run_guarded(PrivateKey::generate) {
                        Guarded::Returned(k) => slots.push(Some(Slot::Priv(k))),
                        _ => out.violations.push(viol("C20", "generate_failed", format!("step {}", i))),
                    }
                }
                Step::FromBytes(b) => {
                    sig.push('F');
                    slots.push(Some(Slot::Priv(PrivateKey::try_from(&b.0[..]).unwrap())));
                }
                Step::Payload(b) => {
                    sig.push('P');
                    // the address offset is derived from the key so that programs stay plain data
                    slots.push(Some(pay_new(PayloadKey::new(&b.0), b.0[1] as usize)));
                }
                Step::BoxedPayload(b) => {
                    sig.push('B');
                    slots.push(Some(Slot::BoxPay(Box::new(PayloadKey::new(&b.0)))));
                }
                Step::Clone(k) => {
                    sig.push('c');
                    let n = slots.len();
                    let new = match slots.get(*k % n.max(1)).and_then(|s| s.as_ref()) {
                        Some(Slot::Priv(p)) => Some(Slot::Priv(p.clone())),
                        Some(Slot::Pay(p, off)) => {
                            let src = unsafe { (p.0.as_ptr() as *const u8).add(*off) as *const PayloadKey };
                            let c = unsafe { (*src).clone() };
                            Some(pay_new(c, off + 3))
                        }
                        Some(Slot::BoxPay(p)) => Some(Slot::BoxPay(Box::new((**p).clone()))),
                        None => None,
                    };
                    slots.push(new);
                }
                Step::Move(k) => {
                    sig.push('m');
                    let n = slots.len();
                    let v = if n > 0 { slots[*k % n].take() } else { None };
                    // inline payload keys are moved by value into a fresh slot; the destructor of
                    // the value runs only once, at its final place
                    let v = match v {
                        Some(Slot::Pay(mut p, off)) => {
                            let val: PayloadKey = unsafe { std::ptr::read(pay_ptr(&mut p, off)) };
                            Some(pay_new(val, off + 5))
                        }
                        other => other,
                    };
                    slots.push(v);
                }
                Step::Drop(k) => {
                    sig.push('d');
                    let n = slots.len();
                    if n > 0 {
                        if let Some(v) = slots[*k % n].take() {
                            checked += 1;
                            drop_slot(v, &mut out, i);
                        }
                    }
                }
                Step::CloneFrom(a, b) => {
                    sig.push('f');
                    let n = slots.len();
                    if n > 1 && a % n != b % n {
                        let (ai, bi) = (a % n, b % n);
                        let src = match slots[bi].as_ref() {
                            Some(Slot::Priv(p)) => Some(p.clone()),
                            _ => None,
                        };
                        if let (Some(Slot::Priv(dst)), Some(src)) = (slots[ai].as_mut(), src) {
                            alloc::clear_watches();
                            let old_ptr = dst.as_bytes().as_ptr();
                            let w = alloc::watch(old_ptr, 32);
                            dst.clone_from(&src);
                            let ws = alloc::watched(w);
                            checked += 1;
                            // either the old block was released (then it must have been erased first)
                            // or it was reused in place and now holds the new value
                            if ws.freed && nonzero(&ws.snap[..32]) {
                                out.violations.push(viol("C20", "private_key_not_erased", format!("step {}: clone_from released the replaced key's block with {} non-zero secret bytes in it", i, ws.snap[..32].iter().filter(|b| **b != 0).count())));
                            }
                            alloc::clear_watches();
                            // src (a clone) is dropped here, unwatched
                        }
                    }
                }
                Step::DropInPanic(k) => {
                    sig.push('p');
                    let n = slots.len();
                    if n > 0 {
                        if let Some(v) = slots[*k % n].take() {
                            checked += 1;
                            alloc::clear_watches();
                            match v {
                                Slot::Priv(key) => {
                                    let w = alloc::watch(key.as_bytes().as_ptr(), 32);
                                    let _ = run_guarded(move || {
                                        let _owned = key;
                                        panic!("unwinding through the owner of a key");
                                    });
                                    let ws = alloc::watched(w);
                                    if ws.freed && nonzero(&ws.snap[..32]) {
                                        out.violations.push(viol("C20", "private_key_not_erased", format!("step {}: PrivateKey dropped during unwinding was released with non-zero secret bytes", i)));
                                    } else if !ws.freed {
                                        out.count("probe.key_block_not_released_at_drop", 1);
                                    }
                                }
                                Slot::Pay(mut b, off) => {
                                    struct Guard(*mut PayloadKey);
                                    impl Drop for Guard {
                                        fn drop(&mut self) {
                                            unsafe { std::ptr::drop_in_place(self.0) };
                                        }
                                    }
                                    let p = pay_ptr(&mut b, off);
                                    let key_before: Vec<u8> = unsafe { (*p).as_bytes().to_vec() };
                                    let g = Guard(p);
                                    let _ = run_guarded(move || {
                                        let _owned = g;
                                        panic!("unwinding through the owner of a key");
                                    });
                                    let n = std::mem::size_of::<PayloadKey>().min(48);
                                    let after: Vec<u8> = (0..n).map(|j| unsafe { std::ptr::read_volatile((p as *const u8).add(j)) }).collect();
                                    let leaked = after.windows(4).filter(|w4| w4.iter().any(|b| *b != 0) && key_before.windows(4).any(|x| x == *w4)).count();
                                    if leaked > 0 {
                                        out.violations.push(viol("C20", "payload_key_not_erased", format!("step {}: a PayloadKey dropped while a panic was unwinding still holds {} four-byte windows of the key", i, leaked)));
                                    }
                                }
                                Slot::BoxPay(bx) => {
                                    let w = alloc::watch(bx.as_bytes().as_ptr(), 32);
                                    let _ = run_guarded(move || {
                                        let _owned = bx;
                                        panic!("unwinding through the owner of a key");
                                    });
                                    let ws = alloc::watched(w);
                                    if ws.freed && nonzero(&ws.snap[..32]) {
                                        out.violations.push(viol("C20", "payload_key_not_erased", format!("step {}: boxed PayloadKey dropped during unwinding was released with non-zero secret bytes", i)));
                                    }
                                }
                            }
                            alloc::clear_watches();
                        }
                    }
                }
                Step::LibNoiseSmallOrder(k) => {
                    sig.push('N');
                    let n = slots.len();
                    if let Some(Some(Slot::Priv(p))) = slots.get(*k % n.max(1)) {
                        let spk = PublicKey::try_from(&pubkey_of(&{ let mut a = [0u8; 32]; a.copy_from_slice(p.as_bytes()); a })[..]).unwrap();
                        let small = PublicKey::try_from(&crate::fam::a4::small_order(1, false)[..]).unwrap();
                        let pay = PayloadKey::new(&[7u8; 32]);
                        alloc::start();
                        let r = run_guarded(|| kestrel_crypto::noise_encrypt(p, &spk, &small, None, None, &[1, 2, 3, 4], &pay).is_err());
                        let st = alloc::stop();
                        out.count("probe.lib_frees32", st.frees32);
                        out.count("probe.lib_frees32_zeroed", st.frees32_zero);
                        if r != Guarded::Returned(true) {
                            out.count("probe.lib_step_unexpected", 1);
                        }
                    }
                }
                Step::LibEncryptFault(k, call) | Step::LibDecryptFault(k, call) => {
                    let dec = matches!(st, Step::LibDecryptFault(..));
                    sig.push(if dec { 'D' } else { 'E' });
                    let n = slots.len();
                    if let Some(Some(Slot::Priv(p))) = slots.get(*k % n.max(1)) {
                        let mut sk = [0u8; 32];
                        sk.copy_from_slice(p.as_bytes());
                        let mode = Mode::Key { s_priv: Hx(sk.to_vec()), r_priv: Hx(sk.to_vec()), e_priv: None, payload: None, omit_e_pub: false };
                        let ws = if dec { WriteScript::default() } else { WriteScript { caps: vec![], faults: vec![(*call, IoFault::Hard)], flush_faults: vec![] } };
                        alloc::start();
                        let e = run_encrypt(&mode, b"zeroize", &ReadScript::default(), &ws, &trace);
                        if dec {
                            let _ = run_decrypt(&mode, &e.sink, &ReadScript { caps: vec![], faults: vec![(*call, IoFault::Hard)] }, &WriteScript::default(), &trace, None, None);
                        }
                        let st = alloc::stop();
                        out.count("probe.lib_frees32", st.frees32);
                        out.count("probe.lib_frees32_zeroed", st.frees32_zero);
                    }
                }
            }
        }
        // everything still alive is dropped at the end of the program, checked the same way
        let rest: Vec<Slot> = slots.into_iter().flatten().collect();
        for v in rest {
            checked += 1;
            drop_slot(v, &mut out, s.steps.len());
        }
        remove_entropy();
        out.count("probe.containers_checked_at_drop", checked);
        let t = trace.borrow();
        out.trace_hash = t.hash ^ crate::rng::fnv64(format!("{}|{}", sig, out.violations.len()).as_bytes());
        out.steps = s.steps.len() as u64 + t.seq;
        out.signature = format!("a7|{}", sig);
        out.nontrivial = checked > 1;
        out
    }

    fn shrink(&self, s: &Scn) -> Vec<Scn> {
        // dropping a step renumbers later slots only if it created one; try removing non-creating steps
        let mut c = vec![];
        for i in (0..s.steps.len()).rev() {
            if matches!(s.steps[i], Step::Drop(_) | Step::CloneFrom(..) | Step::DropInPanic(_) | Step::LibNoiseSmallOrder(_) | Step::LibEncryptFault(..) | Step::LibDecryptFault(..)) {
                let mut t = s.clone();
                t.steps.remove(i);
                c.push(t);
            }
        }
        if s.steps.len() > 1 {
            let mut t = s.clone();
            t.steps.pop();
            c.push(t);
        }
        c
    }
    fn real_components(&self) -> Vec<&'static str> {
        vec!["kestrel-crypto (working tree): PrivateKey, PayloadKey (constructors, Clone, Drop, Zeroize), noise_encrypt / key_encrypt / key_decrypt error paths", "zeroize", "the system allocator (observed)"]
    }
    fn simulated_components(&self) -> Vec<&'static str> {
        vec!["allocator wrapper that snapshots watched blocks at dealloc", "harness-owned slots for inline containers", "OS entropy (seeded) for PrivateKey::generate", "Read/Write seams with injected faults for the library steps"]
    }
}

//! Family B1 "config matrix": one logical CLI operation executed under several I/O and option
//! wirings ({file argument | stdin} x {-o | stdout} x {-k | KESTREL_KEYRING} x {long | short
//! options} x {command | alias}), with valid and invalid material. The oracle is the CLI
//! reference model: exit 0 <=> the operation completed (checked with the reference
//! implementation), sender naming, wiring independence. Decides C12; CLI clauses of C07 and C08.

use crate::cli::*;
use crate::engine::*;
use crate::hx::to_hex;
use crate::ops::Plain;
use crate::refmodel::{format as rf, keyring as rk, prims as rp};
use crate::rng::Rng;
use serde::{Deserialize, Serialize};

#[derive(Serialize, Deserialize, Clone, Debug, PartialEq)]
pub enum Op {
    Encrypt,
    Decrypt,
    PassEncrypt,
    PassDecrypt,
}

#[derive(Serialize, Deserialize, Clone, Debug, PartialEq)]
pub enum Material {
    Valid,
    WrongPassword,
    UnknownName,
    EnvPassUnset,
    /// flip one bit of the ciphertext at this fraction (per mille) of its length
    CorruptInput(u32),
    /// truncate the ciphertext to this fraction (per mille)
    TruncatedInput(u32),
    /// append this many bytes after the final chunk
    ExtendedInput(u32),
    /// KESTREL_PASSWORD holds bytes that are not UTF-8
    EnvPassNotUtf8,
}

#[derive(Serialize, Deserialize, Clone, Debug, PartialEq)]
pub struct Wiring {
    pub in_file: bool,
    pub stdin_pipe: bool,
    pub out_opt: bool,
    pub keyring_opt: bool,
    pub long: bool,
    pub alias: bool,
    pub opts_first: bool,
    /// the input file argument is a named pipe fed by another process (only for 1..60000-byte inputs)
    #[serde(default)]
    pub in_fifo: bool,
    /// the passwords are typed at the prompt on a controlling terminal instead of --env-pass
    #[serde(default)]
    pub typed_pass: bool,
    /// stdin is the terminal as well (an interactive session; only when the data comes from a file argument)
    #[serde(default)]
    pub stdin_tty: bool,
}

#[derive(Serialize, Deserialize, Clone, Debug, PartialEq)]
pub enum SenderPos {
    First,
    Last,
    Absent,
}

#[derive(Serialize, Deserialize, Clone, Debug)]
pub struct Scn {
    pub op: Op,
    pub material: Material,
    pub plain: Plain,
    pub sender_pos: SenderPos,
    pub wirings: Vec<Wiring>,
    pub seed: u64,
    /// repeat the first wiring on the real OS RNG to compare fresh randomness (C07)
    pub repeat_os_rng: bool,
    /// the -o path already holds this many bytes of an older, unrelated file
    pub prior_output_len: Option<usize>,
    /// the decoy entry of the keyring has a mistyped checksum (well-formed, parses, unusable)
    pub decoy_bad_checksum: bool,
    /// names of the input and output files in the sandbox (command words, option look-alikes ...)
    #[serde(default)]
    pub in_name: Option<String>,
    #[serde(default)]
    pub out_name: Option<String>,
    /// sender absent from the keyring, and chosen so that simple folds of its encoded key (XOR of
    /// all bytes, byte sum, first and last byte) collide with the first keyring entry's
    #[serde(default)]
    pub lookalike_sender: bool,
    /// the keyring's decoy entry is named like the recipient (encrypt) / like the sender (decrypt) with the
    /// ASCII case of its letters flipped, and comes first: names are case-sensitive
    #[serde(default)]
    pub case_decoy: bool,
    /// the pre-existing output file is itself a kestrel password file (an earlier run's result)
    #[serde(default)]
    pub prior_is_kestrel_file: bool,
    /// -k is given AND KESTREL_KEYRING points to another keyring: the option must win
    #[serde(default)]
    pub env_keyring_decoy: bool,
    /// sender and recipient are the same keyring entry (a file encrypted to oneself)
    #[serde(default)]
    pub self_addressed: bool,
    /// the keyring's first entry carries the SENDER's 32 key bytes with a mistyped checksum under another name
    #[serde(default)]
    pub sender_twin_bad_checksum: bool,
}

pub struct B1;

pub struct World {
    pub names: [String; 3],
    pub sks: [[u8; 32]; 3],
    pub pws: [String; 3],
    pub salts: [[u8; 32]; 3],
    pub file_pw: String,
}

/// A private key whose encoded public key (32 bytes + 4 checksum bytes) agrees with `target`
/// under one simple fold: XOR of all bytes, byte sum mod 256, first byte, or last byte.
pub fn lookalike_key(target_pk: &[u8; 32], seed: u64, mode: u8) -> [u8; 32] {
    fn enc(pk: &[u8; 32]) -> Vec<u8> {
        let mut v = pk.to_vec();
        v.extend_from_slice(&rp::sha256(pk)[..4]);
        v
    }
    let t = enc(target_pk);
    let fold = |v: &[u8]| -> (u8, u8, u8, u8) { (v.iter().fold(0u8, |a, b| a ^ b), v.iter().fold(0u8, |a, b| a.wrapping_add(*b)), v[0], v[35]) };
    let tf = fold(&t);
    let mut r = Rng::new(seed ^ 0x100ca11c);
    let mut best = r.arr32();
    for _ in 0..6000 {
        let sk = r.arr32();
        let f = fold(&enc(&rp::x25519_base(&sk)));
        let hit = match mode % 4 {
            0 => f.0 == tf.0,
            1 => f.1 == tf.1,
            2 => f.2 == tf.2,
            _ => f.3 == tf.3,
        };
        if hit {
            best = sk;
            break;
        }
    }
    best
}

pub fn world(seed: u64) -> World {
    let mut r = Rng::new(seed);
    let mut name = |r: &mut Rng, base: &str| format!("{}-{:08x}{:04x}", base, r.below(1 << 32), r.below(1 << 16));
    let names = [name(&mut r, "alice"), name(&mut r, "bobby"), name(&mut r, "carol")];
    let pws = [format!("pa-{}", r.below(100000)), format!("pb ü {}", r.below(100000)), String::new()];
    let mut w = World { names, sks: [r.arr32(), r.arr32(), r.arr32()], pws, salts: [r.arr32(), r.arr32(), r.arr32()], file_pw: format!("file-{}", r.below(1000000)) };
    // in half of the worlds the file password, in an eighth the recipient's key password, ends with a
    // line terminator or a blank (a password taken from a file): those bytes belong to the password
    if seed % 2 == 1 {
        w.file_pw.push_str(["\n", "\r\n", " ", "\r"][((seed >> 2) % 4) as usize]);
    }
    if seed % 8 == 5 {
        w.pws[1].push_str(["\n", "\r\n"][((seed >> 3) % 2) as usize]);
    }
    w
}

fn flip_case(s: &str) -> String {
    s.chars().map(|c| if c.is_ascii_lowercase() { c.to_ascii_uppercase() } else if c.is_ascii_uppercase() { c.to_ascii_lowercase() } else { c }).collect()
}

fn keyring_for(w: &World, op: &Op, pos: &SenderPos, bad_decoy: bool, case_decoy: bool) -> String {
    let mut t = if w.names[0] == w.names[1] {
        // self-addressed: one entry with the private key, plus the decoy
        let spec = |i: usize, p: bool| KeySpec { name: w.names[i].clone(), sk: w.sks[i], password: if p { Some(w.pws[i].clone()) } else { None }, salt: w.salts[i] };
        keyring_text(&[spec(2, false), spec(1, true)])
    } else {
        keyring_for_inner(w, op, pos)
    };
    if case_decoy {
        // one more entry, in front: same name as the key the command will look up, other letter case, other key
        let looked_up = if *op == Op::Encrypt { &w.names[1] } else { &w.names[1] };
        let decoy_sk = rp::sha256(w.names[2].as_bytes());
        let entry = format!("[Key]\nName = {}\nPublicKey = {}\n\n", flip_case(looked_up), rk::encode_pk(&rp::x25519_base(&decoy_sk)));
        t = format!("{}{}", entry, t);
    }
    if !bad_decoy {
        return t;
    }
    // (decoy with a bad checksum)
    let good = rk::encode_pk(&rp::x25519_base(&w.sks[2]));
    let mut bad = good.clone().into_bytes();
    let l = bad.len() - 1;
    bad[l] = if bad[l] == b'A' { b'B' } else { b'A' };
    t.replace(&good, &String::from_utf8(bad).unwrap())
}

fn keyring_for_inner(w: &World, op: &Op, pos: &SenderPos) -> String {
    let spec = |i: usize, with_priv: bool| KeySpec { name: w.names[i].clone(), sk: w.sks[i], password: if with_priv { Some(w.pws[i].clone()) } else { None }, salt: w.salts[i] };
    match op {
        // the sender's keyring: own private key, recipient and a decoy public
        Op::Encrypt => match pos {
            SenderPos::First => keyring_text(&[spec(0, true), spec(1, false), spec(2, false)]),
            _ => keyring_text(&[spec(2, false), spec(1, false), spec(0, true)]),
        },
        // the recipient's keyring: own private key; the sender first, last or absent
        _ => match pos {
            SenderPos::First => keyring_text(&[spec(0, false), spec(2, false), spec(1, true)]),
            SenderPos::Last => keyring_text(&[spec(1, true), spec(2, false), spec(0, false)]),
            SenderPos::Absent => keyring_text(&[spec(1, true), spec(2, false)]),
        },
    }
}

fn build_inv(s: &Scn, w: &World, wi: &Wiring, input_name: &str, out_name: &str) -> Invocation {
    let mut args: Vec<String> = vec![];
    match s.op {
        Op::Encrypt => args.push(if wi.alias { "enc" } else { "encrypt" }.into()),
        Op::Decrypt => args.push(if wi.alias { "dec" } else { "decrypt" }.into()),
        Op::PassEncrypt => {
            args.push(if wi.alias { "pass" } else { "password" }.into());
            args.push(if wi.alias { "enc" } else { "encrypt" }.into());
        }
        Op::PassDecrypt => {
            args.push(if wi.alias { "pass" } else { "password" }.into());
            args.push(if wi.alias { "dec" } else { "decrypt" }.into());
        }
    }
    let mut opts: Vec<String> = vec![];
    let o = |long: &str, short: &str| if wi.long { format!("--{}", long) } else { format!("-{}", short) };
    let to_name = if s.material == Material::UnknownName { "nobody-here".to_string() } else { w.names[1].clone() };
    match s.op {
        Op::Encrypt => {
            opts.extend([o("to", "t"), to_name, o("from", "f"), w.names[0].clone()]);
        }
        Op::Decrypt => {
            opts.extend([o("to", "t"), to_name]);
        }
        _ => {}
    }
    if wi.out_opt {
        opts.extend([o("output", "o"), out_name.to_string()]);
    }
    let key_op = matches!(s.op, Op::Encrypt | Op::Decrypt);
    if key_op && wi.keyring_opt {
        opts.extend([o("keyring", "k"), "keyring.txt".to_string()]);
    }
    opts.push("--env-pass".into());
    let free: Vec<String> = if wi.in_file { vec![input_name.to_string()] } else { vec![] };
    if wi.opts_first {
        args.extend(opts);
        args.extend(free);
    } else {
        args.extend(free);
        args.extend(opts);
    }
    let refs: Vec<&str> = args.iter().map(|s| s.as_str()).collect();
    let mut inv = Invocation::new(&refs);
    let right_pw = match s.op {
        Op::Encrypt => w.pws[0].clone(),
        Op::Decrypt => w.pws[1].clone(),
        _ => w.file_pw.clone(),
    };
    match s.material {
        Material::EnvPassUnset => {}
        Material::EnvPassNotUtf8 => {
            // Latin-1 bytes: the tool must refuse the variable, not guess
            let mut b = right_pw.clone().into_bytes();
            b.extend_from_slice(&[0x63, 0x61, 0x66, 0xe9, 0xff]);
            inv.env_bytes.push(("KESTREL_PASSWORD".into(), b));
        }
        Material::WrongPassword => {
            // another password: one more character, or the same password with / without a line terminator
            let trimmed = right_pw.trim_end_matches(|c| c == '\n' || c == '\r' || c == ' ').to_string();
            let wrong = match (s.seed >> 3) % 3 {
                0 => format!("{}x", right_pw),
                1 if trimmed != right_pw => trimmed,
                1 => format!("{}\n", right_pw),
                _ => format!("{}\r\n", right_pw),
            };
            inv = inv.env("KESTREL_PASSWORD", &wrong)
        }
        _ => inv = inv.env("KESTREL_PASSWORD", &right_pw),
    }
    if key_op && !wi.keyring_opt {
        inv = inv.env("KESTREL_KEYRING", "keyring.txt");
    }
    if !wi.in_file {
        inv.stdin = if wi.stdin_pipe { Stdin::Pipe(vec![]) } else { Stdin::File(input_name.to_string()) };
    }
    inv.pass_via_tty = wi.typed_pass;
    // (a wrong key password typed in an interactive session is asked for again, for as long as it takes:
    // that combination would wait for a fifth line that nobody types)
    let asks_again = key_op && s.material == Material::WrongPassword && wi.typed_pass;
    if wi.in_file && wi.stdin_tty && !asks_again {
        inv.stdin = Stdin::Tty;
    }
    inv
}

impl Family for B1 {
    type Scenario = Scn;
    fn name(&self) -> &'static str {
        "b1"
    }
    fn properties(&self) -> &'static [&'static str] {
        &["C12", "C07", "C08", "C05", "C03", "C04", "C01", "C02"]
    }
    fn budget(&self, tier: Tier, p: &str) -> u64 {
        let q = match p {
            // (the first twelve scenarios of a run are the damaged-file grid)
            "C12" => 172,
            "C05" => 162,
            "C07" => 92,
            "C03" => 92,
            "C04" => 92,
            "C02" => 82,
            "C01" => 52,
            _ => 42,
        };
        q * match tier {
            Tier::Quick => 1,
            Tier::Thorough => 12,
        }
    }
    fn generate(&self, rng: &mut Rng, tier: Tier, idx: u64) -> Scn {
        let op = match rng.below(10) {
            0..=2 => Op::Encrypt,
            3..=5 => Op::Decrypt,
            6 | 7 => Op::PassEncrypt,
            _ => Op::PassDecrypt,
        };
        let material = if rng.chance(1, 2) {
            Material::Valid
        } else {
            match (&op, rng.below(6)) {
                (Op::PassEncrypt, k) => {
                    if k % 2 == 0 {
                        Material::EnvPassUnset
                    } else {
                        Material::EnvPassNotUtf8
                    }
                }
                (_, 0) => Material::WrongPassword,
                (Op::Encrypt, 1) | (Op::Decrypt, 1) => Material::UnknownName,
                (_, 2) => {
                    if rng.chance(1, 2) {
                        Material::EnvPassUnset
                    } else {
                        Material::EnvPassNotUtf8
                    }
                }
                (Op::Decrypt, _) | (Op::PassDecrypt, _) => match rng.below(4) {
                    0 | 1 => Material::CorruptInput(rng.below(1000) as u32),
                    2 => Material::TruncatedInput(rng.below(1000) as u32),
                    _ => Material::ExtendedInput(1 + rng.below(40) as u32),
                },
                _ => Material::WrongPassword,
            }
        };
        let len = match rng.below(8) {
            0 => 0,
            1 => 65536,
            2 => 65537 + rng.usize_below(70000),
            _ => rng.usize_below(3000),
        };
        let nw = if tier == Tier::Quick { 4 } else { 32 };
        let mut wirings = vec![];
        if nw == 32 {
            for m in 0..32u32 {
                wirings.push(Wiring { in_file: m & 1 == 1, stdin_pipe: rng.chance(1, 2) && len <= 60000, out_opt: m & 2 == 2, keyring_opt: m & 4 == 4, long: m & 8 == 8, alias: m & 16 == 16, opts_first: rng.chance(1, 2), in_fifo: rng.chance(1, 5), typed_pass: false, stdin_tty: false });
            }
        } else {
            // a covering sample: the all-default wiring, its complement, and two random ones
            let m0 = rng.below(32) as u32;
            for m in [m0, !m0 & 31, rng.below(32) as u32, rng.below(32) as u32] {
                wirings.push(Wiring { in_file: m & 1 == 1, stdin_pipe: rng.chance(1, 2) && len <= 60000, out_opt: m & 2 == 2, keyring_opt: m & 4 == 4, long: m & 8 == 8, alias: m & 16 == 16, opts_first: rng.chance(1, 2), in_fifo: rng.chance(1, 5), typed_pass: false, stdin_tty: false });
            }
        }
        // a third of the scenarios: a valid decryption of a file from a stranger whose encoded key
        // resembles a keyring entry's
        let lookalike_sender = rng.chance(1, 3);
        let (op, material) = if lookalike_sender { (Op::Decrypt, Material::Valid) } else { (op, material) };
        let sender_pos = match rng.below(3) {
            0 => SenderPos::First,
            1 => SenderPos::Last,
            _ => SenderPos::Absent,
        };
        let is_encryption = matches!(op, Op::PassEncrypt | Op::Encrypt);
        let mut scn = Scn {
            op,
            material,
            plain: Plain { len, fill_seed: rng.next_u64() },
            sender_pos,
            wirings,
            seed: rng.next_u64(),
            repeat_os_rng: rng.chance(1, 3),
            in_name: if rng.chance(1, 4) { Some((*rng.pick(&["enc", "dec", "pass", "gen", "key", "password", "decrypt", "-t", "a b.bin", "ünï.bin"])).to_string()) } else { None },
            out_name: if rng.chance(1, 6) { Some((*rng.pick(&["enc", "dec", "pass", "out put", "encrypt"])).to_string()) } else { None },
            lookalike_sender,
            case_decoy: rng.chance(1, 4),
            self_addressed: rng.chance(1, 8),
            sender_twin_bad_checksum: rng.chance(1, 5),
            prior_is_kestrel_file: rng.chance(1, 2),
            env_keyring_decoy: rng.chance(1, 3),
            // encryptions are often second runs onto the same output name
            prior_output_len: if rng.chance(1, 3) || (is_encryption && rng.chance(1, 2)) { Some(len + 200 + rng.usize_below(100000)) } else { None },
            decoy_bad_checksum: rng.chance(1, 3),
        };
        // derived from the scenario seed, not drawn: one wiring in four types its passwords on a terminal
        let mut t = scn.seed ^ 0x7479;
        for w in scn.wirings.iter_mut() {
            w.typed_pass = crate::rng::splitmix(&mut t) % 4 == 0;
            w.stdin_tty = w.in_file && crate::rng::splitmix(&mut t) % 3 == 0;
        }
        // damaged files: half of them have three chunks (so that the damage can sit behind chunks that are
        // released first), and half are also presented in a fully interactive session - file argument,
        // terminal on stdin, password typed at the prompt (derived from the seed, not drawn)
        if matches!(scn.material, Material::CorruptInput(_) | Material::TruncatedInput(_) | Material::ExtendedInput(_)) {
            if (scn.seed >> 8) % 2 == 0 {
                scn.plain.len = 2 * 65536 + (scn.seed % 1000) as usize;
                if let Some(n) = scn.prior_output_len.as_mut() {
                    *n = (*n).max(scn.plain.len + 200);
                }
            }
            if (scn.seed >> 7) % 2 == 0 {
                if let Some(w) = scn.wirings.first_mut() {
                    w.in_file = true;
                    w.in_fifo = false;
                    w.typed_pass = true;
                    w.stdin_tty = true;
                }
            }
        }
        // the first twelve scenarios of every run are a grid: {key, password} decryption x {a flipped bit in
        // the last chunk, a cut inside the last chunk, stray bytes behind it} x {scripted, fully interactive},
        // always on a three-chunk file - damage behind chunks that have been released
        if idx < 12 {
            scn.op = if idx % 2 == 0 { Op::Decrypt } else { Op::PassDecrypt };
            scn.material = match (idx / 2) % 3 {
                0 => Material::CorruptInput(900 + (scn.seed % 90) as u32),
                1 => Material::TruncatedInput(850 + (scn.seed % 140) as u32),
                _ => Material::ExtendedInput(1 + (scn.seed % 40) as u32),
            };
            scn.lookalike_sender = false;
            scn.self_addressed = false;
            scn.plain.len = 2 * 65536 + 1 + (scn.seed % 1000) as usize;
            if let Some(n) = scn.prior_output_len.as_mut() {
                *n = (*n).max(scn.plain.len + 200);
            }
            let interactive = idx >= 6;
            if interactive {
                // a key world whose passwords can be typed on a terminal line (the even ones have no line
                // terminators in them)
                scn.seed &= !1;
            }
            if let Some(w) = scn.wirings.first_mut() {
                w.in_file = true;
                w.in_fifo = false;
                w.typed_pass = interactive;
                w.stdin_tty = interactive;
            }
        }
        scn
    }

    fn execute(&self, s: &Scn) -> RunOut {
        let mut out = RunOut::default();
        out.props = vec!["C12", "C07", "C08", "C05", "C03", "C04", "C01", "C02"];
        let mut w = world(s.seed % 16); // small pool of key worlds: the reference scrypt cache hits
        let mut sender_pos = s.sender_pos.clone();
        if s.lookalike_sender && s.op == Op::Decrypt {
            // the real sender is a stranger whose encoded key resembles a keyring entry's (carol's)
            sender_pos = SenderPos::Absent;
            let carol_pk = rp::x25519_base(&w.sks[2]);
            w.sks[0] = lookalike_key(&carol_pk, s.seed, ((s.seed >> 8) % 2) as u8);
        }
        if s.self_addressed && !s.lookalike_sender {
            // one entry is both sender and recipient: alice's name and key are bob's
            w.sks[0] = w.sks[1];
            w.names[0] = w.names[1].clone();
            w.pws[0] = w.pws[1].clone();
            w.salts[0] = w.salts[1];
        }
        let s = &Scn { sender_pos, ..s.clone() };
        let pt = s.plain.bytes();
        let pubs: Vec<[u8; 32]> = w.sks.iter().map(rp::x25519_base).collect();
        let mut th: u64 = 0;
        // the input artefact
        let mut r = Rng::new(s.seed ^ 0xB1);
        let (e, payload) = (r.arr32(), r.arr32());
        let fsalt = Rng::new(s.seed % 16).arr32();
        let input: Vec<u8> = match s.op {
            Op::Encrypt | Op::PassEncrypt => pt.clone(),
            Op::Decrypt => rf::write_key_file(
                &rf::KeyParams { s_priv: &w.sks[0], s_pub_claimed: &pubs[0], e_priv: &e, e_pub: &rp::x25519_base(&e), recipient: &pubs[1], payload_key: &payload },
                &pt,
                &crate::gen::full_chunking(pt.len(), 65536),
            ),
            Op::PassDecrypt => rf::write_pass_file(&crate::ops::ref_scrypt_cached(w.file_pw.as_bytes(), &fsalt), &fsalt, &pt, &crate::gen::full_chunking(pt.len(), 65536)),
        };
        let input = match s.material {
            Material::CorruptInput(pm) => {
                let mut v = input;
                if !v.is_empty() {
                    let off = (pm as usize * v.len() / 1000).min(v.len() - 1);
                    // the advisory counter field may be edited freely: aim elsewhere
                    let hl = if s.op == Op::Decrypt { 132 } else { 36 };
                    let off = if off >= hl && (off - hl) % 65568 < 8 { off + 8 } else { off }.min(v.len() - 1);
                    v[off] ^= 0x10;
                }
                v
            }
            Material::TruncatedInput(pm) => {
                let n = (pm as usize * input.len() / 1000).min(input.len().saturating_sub(1));
                input[..n].to_vec()
            }
            Material::ExtendedInput(n) => {
                let mut v = input;
                v.extend_from_slice(&crate::rng::fill(n as usize, s.seed ^ 0xe47));
                v
            }
            _ => input,
        };
        let valid = s.material == Material::Valid;
        let mut kr_text = keyring_for(&w, &s.op, &s.sender_pos, s.decoy_bad_checksum, s.case_decoy);
        if s.sender_twin_bad_checksum && s.op == Op::Decrypt {
            // the sender's key bytes under another name with a mistyped checksum, in front of everything
            let mut enc = pubs[0].to_vec();
            let mut ck = rp::sha256(&pubs[0])[..4].to_vec();
            ck[3] ^= 0x01;
            enc.extend_from_slice(&ck);
            kr_text = format!("[Key]\nName = mallory-twin-0001\nPublicKey = {}\n\n{}", crate::refmodel::b64::encode(&enc), kr_text);
        }
        if s.lookalike_sender && s.op == Op::Decrypt && (s.seed >> 9) % 3 == 0 {
            // the keyring entry that resembles the stranger is a near twin of the stranger's key: all bits but
            // a few of the last byte are equal (well-formed entry, correct checksum, another key)
            let carol = rk::encode_pk(&rp::x25519_base(&w.sks[2]));
            let mut twin = pubs[0];
            twin[31] ^= if (s.seed >> 12) % 2 == 0 { 1 + ((s.seed >> 13) % 15) as u8 } else { 0x80 };
            kr_text = kr_text.replace(&carol, &rk::encode_pk(&twin));
            out.count("probe.near_twin_of_the_sender_in_keyring", 1);
        }
        let mut results: Vec<(i32, Option<Vec<u8>>, String)> = vec![];
        let mut produced_files: Vec<Vec<u8>> = vec![];
        let mut runs: Vec<(Wiring, Option<u64>)> = s.wirings.iter().map(|wi| (wi.clone(), Some(s.seed ^ 0x5eed))).collect();
        if s.repeat_os_rng && valid && matches!(s.op, Op::Encrypt | Op::PassEncrypt) && !s.wirings.is_empty() {
            runs.push((s.wirings[0].clone(), None));
            runs.push((s.wirings[0].clone(), None));
        }
        for (k, (wi, ent)) in runs.iter().enumerate() {
            let sb = Sandbox::new("b1");
            sb.write("keyring.txt", kr_text.as_bytes());
            let in_name = s.in_name.clone().unwrap_or_else(|| "input.bin".to_string());
            let mut out_name = s.out_name.clone().unwrap_or_else(|| "output.bin".to_string());
            if out_name == in_name {
                out_name.push_str(".out");
            }
            // a file argument that starts with '-' would be an option: such names are only used on stdin
            let wi = &{
                let mut w2 = wi.clone();
                if in_name.starts_with('-') {
                    w2.in_file = false;
                }
                w2
            };
            let use_fifo = wi.in_fifo && wi.in_file && !input.is_empty() && input.len() <= 60000;
            if !use_fifo {
                sb.write(&in_name, &input);
            }
            let mut prior_salt: Option<Vec<u8>> = None;
            if let (Some(n), true) = (s.prior_output_len, wi.out_opt) {
                if s.prior_is_kestrel_file {
                    // what an earlier `password encrypt -o` of a longer file left here
                    let old_salt = Rng::new(s.seed ^ 0x0a17).arr32();
                    let old_pt = crate::rng::fill(n, s.seed ^ 0x01d);
                    let f = rf::write_pass_file(&crate::ops::ref_scrypt_cached(w.file_pw.as_bytes(), &fsalt), &old_salt, &old_pt, &crate::gen::full_chunking(old_pt.len(), 65536));
                    prior_salt = Some(f[4..36].to_vec());
                    sb.write(&out_name, &f);
                } else {
                    sb.write(&out_name, &crate::rng::fill(n, s.seed ^ 0x01d));
                }
            }
            if s.env_keyring_decoy && wi.keyring_opt && matches!(s.op, Op::Encrypt | Op::Decrypt) {
                // another, perfectly valid keyring that lacks the keys this command needs
                sb.write("other-keyring.txt", keyring_text(&[KeySpec { name: "someone-else-0001".into(), sk: rp::sha256(b"other keyring"), password: None, salt: [0u8; 32] }]).as_bytes());
            }
            let mut inv = build_inv(s, &w, wi, &in_name, &out_name);
            inv.entropy_seed = *ent;
            if let Stdin::Pipe(_) = inv.stdin {
                inv.stdin = Stdin::Pipe(input.clone());
            }
            if s.env_keyring_decoy && wi.keyring_opt && matches!(s.op, Op::Encrypt | Op::Decrypt) {
                inv = inv.env("KESTREL_KEYRING", "other-keyring.txt");
            }
            if use_fifo {
                inv.fifo = Some((in_name.clone(), input.clone()));
            }
            let fin = run(&sb, &inv);
            if ent.is_some() {
                th = th.rotate_left(9) ^ fin.digest();
            }
            let stderr = fin.stderr_text();
            let code = match fin.status {
                Status::Exit(c) => c,
                ref other => {
                    out.violations.push(viol("C12", "abnormal_termination", format!("wiring {}: {:?}; stderr: {}", k, other, stderr.chars().take(200).collect::<String>())));
                    continue;
                }
            };
            let output: Option<Vec<u8>> = if wi.out_opt { sb.read(&out_name) } else { Some(fin.stdout.clone()) };
            if code != 0 && code != 1 {
                out.violations.push(viol("C12", "exit_status_not_0_or_1", format!("wiring {}: exit {}; stderr: {}", k, code, stderr.chars().take(200).collect::<String>())));
            }
            if code == 1 && !fin.has_error_line() {
                out.violations.push(viol("C12", "failure_without_error_line", format!("wiring {}: exit 1 but no line starting with 'Error:'", k)));
            }
            // exit 0 <=> the operation completed
            let completed: bool = match s.op {
                Op::Decrypt | Op::PassDecrypt => output.as_deref() == Some(&pt[..]),
                Op::Encrypt => match &output {
                    Some(f) => {
                        let v = rf::accept_key_file(f, &w.sks[1], &pubs[1]);
                        v.chunks.accepted() && v.chunks.plaintext() == pt && v.sender == Some(pubs[0])
                    }
                    None => false,
                },
                Op::PassEncrypt => match &output {
                    Some(f) => {
                        let pw = w.file_pw.clone();
                        let v = rf::accept_pass_file(f, &mut |salt| crate::ops::ref_scrypt_cached(pw.as_bytes(), salt));
                        v.accepted() && v.plaintext() == pt
                    }
                    None => false,
                },
            };
            if matches!(s.op, Op::Decrypt | Op::PassDecrypt) {
                if let Some(o) = &output {
                    let had_prior = s.prior_output_len.is_some() && wi.out_opt && code != 0;
                    if !pt.starts_with(o) && !had_prior {
                        out.violations.push(viol("C04", "cli_released_bytes_not_authentic", format!("wiring {} ({:?}, exit {}): the destination holds {} bytes that are not a prefix of the authentic plaintext ({} bytes)", k, s.material, code, o.len(), pt.len())));
                    }
                }
            }
            if code == 0 && !completed && s.op == Op::Encrypt && s.case_decoy {
                // to whom was it encrypted, then? the decoy whose name differs only in letter case
                if let Some(f) = &output {
                    let decoy_sk = rp::sha256(w.names[2].as_bytes());
                    let v = rf::accept_key_file(f, &decoy_sk, &rp::x25519_base(&decoy_sk));
                    if v.chunks.accepted() {
                        out.violations.push(viol("C05", "cli_encrypted_to_another_key", format!("wiring {}: `-t {}` produced a file that the key of '{}' decrypts and the addressed key does not", k, w.names[1], flip_case(&w.names[1]))));
                    }
                }
            }
            if code == 0 && !completed {
                out.violations.push(viol("C12", "exit_0_without_completion", format!("wiring {} ({:?} {:?}): exit 0 but the destination does not hold the {} result ({} bytes present)", k, s.op, s.material, if matches!(s.op, Op::Decrypt | Op::PassDecrypt) { "complete plaintext" } else { "file that the reference decrypts to the plaintext and sender" }, output.as_ref().map(|o| o.len()).unwrap_or(0))));
            }
            // the round-trip properties at the level of the tool (C01 key mode, C02 password mode)
            let rt = if matches!(s.op, Op::PassEncrypt | Op::PassDecrypt) { "C02" } else { "C01" };
            if valid && code != 0 {
                out.violations.push(viol("C12", "valid_operation_failed", format!("wiring {} ({:?}): a valid, fault-free operation exited {}: {}", k, s.op, code, stderr.chars().take(300).collect::<String>())));
                out.violations.push(viol(rt, "cli_round_trip_failed", format!("wiring {} ({:?}): with the right keys and password the tool exited {}: {}", k, s.op, code, stderr.chars().take(300).collect::<String>())));
            }
            if valid && code == 0 && !completed {
                out.violations.push(viol(rt, "cli_round_trip_wrong_result", format!("wiring {} ({:?}): exit 0, but the destination does not hold the expected result", k, s.op)));
            }
            if !valid && code == 0 && s.material == Material::WrongPassword && matches!(s.op, Op::PassDecrypt) {
                out.violations.push(viol("C02", "cli_other_password_accepted", format!("wiring {}: password decrypt succeeded under a different password", k)));
            }
            if !valid && code == 0 {
                out.violations.push(viol("C12", "invalid_operation_succeeded", format!("wiring {} ({:?} {:?}): exit 0", k, s.op, s.material)));
                if matches!(s.material, Material::CorruptInput(_) | Material::TruncatedInput(_) | Material::ExtendedInput(_)) {
                    out.violations.push(viol("C03", "cli_accepts_modified_file", format!("wiring {} ({:?} {:?}): the tool exited 0 on a file that is not authentic; output {} bytes, plaintext {} bytes", k, s.op, s.material, output.as_ref().map(|o| o.len()).unwrap_or(0), pt.len())));
                }
                if matches!(s.material, Material::TruncatedInput(_) | Material::ExtendedInput(_)) {
                    // success without "a chunk marked final has verified and the ciphertext ends immediately after it"
                    out.violations.push(viol("C04", "cli_success_without_final_chunk_at_eof", format!("wiring {} ({:?} {:?}): the tool reported success (exit 0) although the ciphertext does not end right after an authenticated final chunk", k, s.op, s.material)));
                }
            }
            // sender naming after a successful key decryption
            let mut report = String::new();
            if s.op == Op::Decrypt && code == 0 {
                let mut present: Vec<&String> = w.names.iter().filter(|n| stderr.contains(n.as_str())).collect();
                present.dedup();
                if stderr.contains("mallory-twin-0001") {
                    out.violations.push(viol("C12", "wrong_sender_named", format!("wiring {}: the entry with a mistyped checksum is named as the sender", k)));
                }
                let effective_pos = if w.names[0] == w.names[1] { SenderPos::First } else { s.sender_pos.clone() };
                match effective_pos {
                    SenderPos::Absent => {
                        let enc = rk::encode_pk(&pubs[0]);
                        if !stderr.contains(&enc) {
                            out.violations.push(viol("C12", "unknown_sender_not_reported", format!("wiring {}: sender is not in the keyring but its encoding {} is not printed: {}", k, enc, stderr)));
                            // another key's encoding printed in its place: a sender is reported whose private key took no part
                            if let Some(other) = pubs.iter().skip(1).map(rk::encode_pk).find(|e| stderr.contains(e.as_str())) {
                                out.violations.push(viol("C05", "cli_reports_another_key_as_sender", format!("wiring {}: the file was made by {} (not in the keyring), but the key reported as its origin is {}", k, enc, other)));
                            }
                        }
                        if !present.is_empty() {
                            out.violations.push(viol("C12", "wrong_sender_named", format!("wiring {}: sender is not in the keyring, yet {:?} is named", k, present)));
                            // the named party's private key took no part in creating this file
                            out.violations.push(viol("C05", "cli_names_sender_without_its_key", format!("wiring {}: the file was made by a key that is not in the keyring, yet it is reported as coming from {:?}", k, present)));
                        }
                        report = format!("unknown:{}", stderr.contains(&enc));
                    }
                    _ => {
                        if !stderr.contains(&format!("File from: {}", w.names[0])) {
                            out.violations.push(viol("C12", "sender_not_named", format!("wiring {}: expected 'File from: {}' in: {}", k, w.names[0], stderr)));
                        }
                        if present.iter().any(|n| **n != w.names[0]) {
                            out.violations.push(viol("C12", "wrong_sender_named", format!("wiring {}: another keyring entry is named: {:?}", k, present)));
                        }
                        report = format!("named:{:?}", present);
                    }
                }
            }
            // C08: nothing that identifies a party in a produced file
            if matches!(s.op, Op::Encrypt | Op::PassEncrypt) && code == 0 {
                if let Some(f) = &output {
                    for (i, n) in w.names.iter().enumerate() {
                        let enc = rk::encode_pk(&pubs[i]);
                        let hit = |needle: &[u8]| f.windows(needle.len()).any(|x| x == needle);
                        if hit(n.as_bytes()) || hit(&pubs[i]) || hit(enc.as_bytes()) {
                            out.violations.push(viol("C08", "identity_in_clear_cli", format!("the produced file contains the keyring name or public key of '{}'", n)));
                        }
                    }
                    let hl = if s.op == Op::Encrypt { 132 } else { 36 };
                    let want = hl + pt.len() + 32 * ((pt.len() + 65535) / 65536).max(1);
                    if f.len() != want {
                        out.violations.push(viol("C08", "size_cli", format!("file is {} bytes, expected {}", f.len(), want)));
                    }
                    if let Some(ps) = &prior_salt {
                        if s.op == Op::PassEncrypt && f.len() >= 36 && f[4..36] == ps[..] {
                            out.violations.push(viol("C07", "cli_salt_taken_from_replaced_file", "password encryption onto an existing kestrel file reused that file's salt".into()));
                        }
                    }
                    produced_files.push(f.clone());
                }
            }
            if ent.is_some() {
                results.push((code, if matches!(s.op, Op::Decrypt | Op::PassDecrypt) { output.clone() } else { None }, report));
            }
        }
        // wiring independence
        if let Some(first) = results.first() {
            for (k, r) in results.iter().enumerate().skip(1) {
                if r.0 != first.0 {
                    out.violations.push(viol("C12", "wiring_changes_exit_status", format!("wiring 0 exits {}, wiring {} exits {} ({:?} vs {:?})", first.0, k, r.0, s.wirings[0], s.wirings[k])));
                } else if r.0 == 0 && (r.1 != first.1 || r.2 != first.2) {
                    out.violations.push(viol("C12", "wiring_changes_result", format!("wirings 0 and {} produce different plaintext or sender report", k)));
                }
            }
        }
        // C07: every produced file has its own ephemeral key / salt, also on identical invocations
        for i in 0..produced_files.len() {
            for j in (i + 1)..produced_files.len() {
                if produced_files[i].len() >= 36 && produced_files[j].len() >= 36 && produced_files[i][4..36] == produced_files[j][4..36] {
                    // seeded runs share the entropy seed on purpose; only OS-RNG repeats must differ
                    let os_i = i >= s.wirings.len();
                    let os_j = j >= s.wirings.len();
                    if os_i || os_j {
                        out.violations.push(viol("C07", "cli_repeated_randomness", format!("two invocations produced the same ephemeral key / salt {}", to_hex(&produced_files[i][4..12]))));
                    }
                }
            }
        }
        out.count("probe.cli_invocations", runs.len() as u64);
        out.count("probe.passwords_typed_on_terminal", s.wirings.iter().filter(|w| w.typed_pass).count() as u64);
        out.count(&format!("probe.material.{:?}", s.material).split('(').next().unwrap().to_string(), 1);
        out.trace_hash = th;
        out.steps = runs.len() as u64;
        out.signature = format!("b1|{:?}|{}|{:?}|len{}|w{}", s.op, format!("{:?}", s.material).split('(').next().unwrap(), s.sender_pos, crate::gen::len_class(s.plain.len, 65536), s.wirings.iter().map(|w| (w.in_file as u8) | (w.out_opt as u8) << 1 | (w.keyring_opt as u8) << 2 | (w.long as u8) << 3 | (w.alias as u8) << 4).map(|m| format!("{:02}", m)).collect::<Vec<_>>().join("."));
        out.nontrivial = s.wirings.len() > 1;
        out
    }

    fn shrink(&self, s: &Scn) -> Vec<Scn> {
        let mut c = vec![];
        for i in 0..s.wirings.len() {
            if s.wirings.len() > 1 {
                let mut t = s.clone();
                t.wirings.remove(i);
                c.push(t);
            }
        }
        if s.plain.len > 0 {
            let mut t = s.clone();
            t.plain.len = s.plain.len / 2;
            c.push(t);
        }
        if s.repeat_os_rng {
            let mut t = s.clone();
            t.repeat_os_rng = false;
            c.push(t);
        }
        if s.prior_output_len.is_some() {
            let mut t = s.clone();
            t.prior_output_len = None;
            c.push(t);
        }
        if s.decoy_bad_checksum {
            let mut t = s.clone();
            t.decoy_bad_checksum = false;
            c.push(t);
        }
        if s.wirings.iter().any(|w| w.typed_pass || w.stdin_tty) {
            let mut t = s.clone();
            for w in t.wirings.iter_mut() {
                w.typed_pass = false;
                w.stdin_tty = false;
            }
            c.push(t);
        }
        c
    }
    fn real_components(&self) -> Vec<&'static str> {
        vec!["the kestrel binary built from the working tree (src/cli: main.rs, commands.rs, keyring.rs; src/crypto), shipped release profile", "getopts, passterm, ct-codecs, anyhow, orion", "the kernel's files and pipes inside the sandbox directory"]
    }
    fn simulated_components(&self) -> Vec<&'static str> {
        vec!["the invoking shell: argv, environment, stdin/stdout wiring, sandbox directory contents", "the controlling terminal: absent (setsid), or a pseudo-terminal on which the passwords are typed at the prompt", "OS entropy (KESTREL_VERIF_ENTROPY_SEED), except in the OS-RNG repeats", "input artefacts (reference writer) and keyrings (reference lock)"]
    }
}

//! Family A6 "bigstream": files of any size are processed as a stream. The plaintext source is
//! a lazy PRNG byte generator, the sink a comparing counter, and for decryption the ciphertext
//! is produced on the fly by the reference writer, so the harness itself is constant-memory.
//! Observed: (i) lag between input consumed and output produced, from the seam event order;
//! (ii) peak live heap and allocation count of the operation, from the allocator seam,
//! relative to the same operation on a 256 KiB input. Decides C11.

use crate::alloc;
use crate::engine::*;
use crate::hx::Hx;
use crate::refmodel::{format as rf, noise as rn, prims as rp};
use crate::rng::Rng;
use crate::seams::{run_guarded, Guarded};
use kestrel_crypto::{AsymFileFormat, PassFileFormat, PayloadKey, PrivateKey, PublicKey};
use serde::{Deserialize, Serialize};
use std::cell::Cell;
use std::io::{self, Read, Write};
use std::rc::Rc;

const CS: usize = 65536;
const BASE_LEN: u64 = 256 * 1024;

/// Deterministic byte stream without allocation.
#[derive(Clone)]
struct ByteStream {
    rng: Rng,
    cur: [u8; 8],
    idx: usize,
}

impl ByteStream {
    fn new(seed: u64) -> Self {
        ByteStream { rng: Rng::new(seed), cur: [0; 8], idx: 8 }
    }
    fn fill(&mut self, buf: &mut [u8]) {
        let mut i = 0;
        while i < buf.len() {
            if self.idx == 8 {
                // fast path: whole words
                while buf.len() - i >= 8 {
                    buf[i..i + 8].copy_from_slice(&self.rng.next_u64().to_le_bytes());
                    i += 8;
                }
                if i == buf.len() {
                    break;
                }
                self.cur = self.rng.next_u64().to_le_bytes();
                self.idx = 0;
            }
            buf[i] = self.cur[self.idx];
            self.idx += 1;
            i += 1;
        }
    }
}

#[derive(Default)]
struct Shared {
    /// encrypt: non-empty reads completed; decrypt: ciphertext records completely handed out
    input_units: Cell<u64>,
    input_bytes: Cell<u64>,
    max_lag: Cell<i64>,
    lag_violation: Cell<Option<(u64, u64)>>,
    mismatch_at: Cell<Option<u64>>,
    tail_taken: Cell<u64>,
}

/// Lazy plaintext source of `len` bytes with an optional per-read cap.
struct PlainSource {
    stream: ByteStream,
    left: u64,
    cap: usize,
    sh: Rc<Shared>,
}

impl Read for PlainSource {
    fn read(&mut self, buf: &mut [u8]) -> io::Result<usize> {
        let prev = alloc::pause();
        let mut n = (buf.len() as u64).min(self.left) as usize;
        if self.cap > 0 {
            n = n.min(self.cap);
        }
        self.stream.fill(&mut buf[..n]);
        self.left -= n as u64;
        if n > 0 {
            self.sh.input_units.set(self.sh.input_units.get() + 1);
            self.sh.input_bytes.set(self.sh.input_bytes.get() + n as u64);
        }
        alloc::resume(prev);
        Ok(n)
    }
}

/// Sink for ciphertext: parses the chunk stream incrementally (no buffering) and checks, at the
/// first byte of chunk i, that at most i+3 non-empty reads have completed.
struct CipherSink {
    header_left: usize,
    /// 0..16 = inside a chunk header (collecting), then body_left counts down
    hdr: [u8; 16],
    hdr_have: usize,
    body_left: usize,
    chunk_idx: u64,
    total: u64,
    wcap: usize,
    sh: Rc<Shared>,
}

impl Write for CipherSink {
    fn write(&mut self, buf: &[u8]) -> io::Result<usize> {
        let prev = alloc::pause();
        let buf = if self.wcap > 0 && buf.len() > self.wcap { &buf[..self.wcap] } else { buf };
        let mut i = 0;
        while i < buf.len() {
            if self.header_left > 0 {
                let k = self.header_left.min(buf.len() - i);
                self.header_left -= k;
                i += k;
                continue;
            }
            if self.body_left == 0 {
                if self.hdr_have == 0 {
                    // first byte of chunk `chunk_idx`
                    let units = self.sh.input_units.get();
                    let lag = units as i64 - self.chunk_idx as i64;
                    if lag > self.sh.max_lag.get() {
                        self.sh.max_lag.set(lag);
                    }
                    if units > self.chunk_idx + 3 && self.sh.lag_violation.get().is_none() {
                        self.sh.lag_violation.set(Some((self.chunk_idx, units)));
                    }
                }
                self.hdr[self.hdr_have] = buf[i];
                self.hdr_have += 1;
                i += 1;
                if self.hdr_have == 16 {
                    let len = u32::from_be_bytes(self.hdr[12..16].try_into().unwrap()) as usize;
                    self.body_left = len + 16;
                    self.hdr_have = 0;
                    self.chunk_idx += 1;
                }
                continue;
            }
            let k = self.body_left.min(buf.len() - i);
            self.body_left -= k;
            i += k;
        }
        self.total += buf.len() as u64;
        alloc::resume(prev);
        Ok(buf.len())
    }
    fn flush(&mut self) -> io::Result<()> {
        Ok(())
    }
}

/// Lazy ciphertext source: header, then records produced one at a time by the reference writer.
struct CipherSource {
    header: Vec<u8>,
    hpos: usize,
    key: [u8; 32],
    aad: Vec<u8>,
    plain: ByteStream,
    plain_left: u64,
    rec: Vec<u8>,
    rpos: usize,
    next_idx: u64,
    done: bool,
    cap: usize,
    ptbuf: Vec<u8>,
    rec_pt: usize,
    /// bytes that follow the final record (a longer old file underneath, two files concatenated ...)
    tail_left: u64,
    sh: Rc<Shared>,
}

impl Read for CipherSource {
    fn read(&mut self, buf: &mut [u8]) -> io::Result<usize> {
        let prev = alloc::pause();
        let mut want = buf.len();
        if self.cap > 0 {
            want = want.min(self.cap);
        }
        let n;
        if self.hpos < self.header.len() {
            n = want.min(self.header.len() - self.hpos);
            buf[..n].copy_from_slice(&self.header[self.hpos..self.hpos + n]);
            self.hpos += n;
        } else {
            if self.rpos == self.rec.len() && !self.done {
                let k = (self.rec_pt as u64).min(self.plain_left) as usize;
                self.plain.fill(&mut self.ptbuf[..k]);
                self.plain_left -= k as u64;
                let last = self.plain_left == 0;
                self.rec.clear();
                rf::write_chunk(&mut self.rec, &self.key, &self.aad, self.next_idx, last, &self.ptbuf[..k]);
                self.rpos = 0;
                self.next_idx += 1;
                self.done = last;
            }
            if self.done && self.rpos == self.rec.len() && self.tail_left > 0 {
                // after the final record: the tail, lazily
                n = (want as u64).min(self.tail_left) as usize;
                self.plain.fill(&mut buf[..n]);
                self.tail_left -= n as u64;
                self.sh.tail_taken.set(self.sh.tail_taken.get() + n as u64);
            } else {
                n = want.min(self.rec.len() - self.rpos);
                buf[..n].copy_from_slice(&self.rec[self.rpos..self.rpos + n]);
                self.rpos += n;
                if n > 0 && self.rpos == self.rec.len() {
                    self.sh.input_units.set(self.sh.input_units.get() + 1);
                }
            }
        }
        self.sh.input_bytes.set(self.sh.input_bytes.get() + n as u64);
        alloc::resume(prev);
        Ok(n)
    }
}

/// Sink for plaintext: compares with the regenerated stream; checks the lag per output chunk.
struct PlainSink {
    expect: ByteStream,
    total: u64,
    scratch: [u8; 4096],
    wcap: usize,
    rec: u64,
    sh: Rc<Shared>,
}

impl Write for PlainSink {
    fn write(&mut self, buf: &[u8]) -> io::Result<usize> {
        let prev = alloc::pause();
        let buf = if self.wcap > 0 && buf.len() > self.wcap { &buf[..self.wcap] } else { buf };
        if !buf.is_empty() {
            let chunk_i = self.total / self.rec;
            let units = self.sh.input_units.get();
            let lag = units as i64 - chunk_i as i64;
            if lag > self.sh.max_lag.get() {
                self.sh.max_lag.set(lag);
            }
            if units > chunk_i + 3 && self.sh.lag_violation.get().is_none() {
                self.sh.lag_violation.set(Some((chunk_i, units)));
            }
        }
        let mut off = 0;
        while off < buf.len() {
            let k = (buf.len() - off).min(4096);
            self.expect.fill(&mut self.scratch[..k]);
            if self.scratch[..k] != buf[off..off + k] && self.sh.mismatch_at.get().is_none() {
                self.sh.mismatch_at.set(Some(self.total + off as u64));
            }
            off += k;
        }
        self.total += buf.len() as u64;
        alloc::resume(prev);
        Ok(buf.len())
    }
    fn flush(&mut self) -> io::Result<()> {
        Ok(())
    }
}

#[derive(Serialize, Deserialize, Clone, Debug, PartialEq)]
pub enum Dir {
    Enc,
    Dec,
}

#[derive(Serialize, Deserialize, Clone, Debug)]
pub struct Scn {
    pub pass_mode: bool,
    pub dir: Dir,
    pub len: u64,
    /// 0 = reads fill the buffer; otherwise the per-read cap
    pub cap: usize,
    pub seed: u64,
    pub password: Hx,
    /// 0 = the sink accepts everything; otherwise it accepts at most this many bytes per write
    pub wcap: usize,
    /// decryption only: plaintext bytes per chunk record of the (reference-written) file; 0 = 65536.
    /// Files with short chunks are what the encryptor writes when its source returns short reads.
    pub rec: usize,
    /// decryption only: this many bytes follow the final chunk record. The file must be refused, and
    /// refusing it must not cost memory in proportion to what follows.
    #[serde(default)]
    pub tail: u64,
}

pub struct A6;

struct Measured {
    ok: bool,
    detail: String,
    stats: alloc::Stats,
    out_bytes: u64,
    max_lag: i64,
    lag_violation: Option<(u64, u64)>,
    mismatch_at: Option<u64>,
    input_units: u64,
}

fn run_one(s: &Scn, len: u64) -> Measured {
    let mut rng = Rng::new(s.seed);
    let (s_priv, r_priv, e_priv, payload, salt) = (rng.arr32(), rng.arr32(), rng.arr32(), rng.arr32(), rng.arr32());
    let data_seed = rng.next_u64();
    let sh = Rc::new(Shared::default());
    let header_len = if s.pass_mode { 36 } else { 132 };
    match s.dir {
        Dir::Enc => {
            let mut src = PlainSource { stream: ByteStream::new(data_seed), left: len, cap: s.cap, sh: sh.clone() };
            let mut sink = CipherSink { header_left: header_len, hdr: [0; 16], hdr_have: 0, body_left: 0, chunk_idx: 0, total: 0, wcap: s.wcap, sh: sh.clone() };
            let sk = PrivateKey::try_from(&s_priv[..]).unwrap();
            let spk = PublicKey::try_from(&rp::x25519_base(&s_priv)[..]).unwrap();
            let rpk = PublicKey::try_from(&rp::x25519_base(&r_priv)[..]).unwrap();
            let ek = PrivateKey::try_from(&e_priv[..]).unwrap();
            let epk = PublicKey::try_from(&rp::x25519_base(&e_priv)[..]).unwrap();
            let pk = PayloadKey::new(&payload);
            let pw = s.password.0.clone();
            alloc::start();
            let g = run_guarded(|| {
                if s.pass_mode {
                    kestrel_crypto::encrypt::pass_encrypt(&mut src, &mut sink, &pw, salt, PassFileFormat::V1).map_err(|e| e.to_string())
                } else {
                    kestrel_crypto::encrypt::key_encrypt(&mut src, &mut sink, &sk, &spk, &rpk, Some(&ek), Some(&epk), Some(&pk), AsymFileFormat::V1).map_err(|e| e.to_string())
                }
            });
            let stats = alloc::stop();
            let (ok, detail) = match g {
                Guarded::Returned(Ok(())) => (true, String::new()),
                Guarded::Returned(Err(e)) => (false, e),
                Guarded::Panicked(m) => (false, format!("panic: {}", m)),
                Guarded::Hang => (false, "hang".into()),
            };
            Measured { ok, detail, stats, out_bytes: sink.total, max_lag: sh.max_lag.get(), lag_violation: sh.lag_violation.get(), mismatch_at: None, input_units: sh.input_units.get() }
        }
        Dir::Dec => {
            let (header, key, aad) = if s.pass_mode {
                let k = crate::ops::ref_scrypt_cached(&s.password.0, &salt);
                let mut h = rf::MAGIC_PASS.to_vec();
                h.extend_from_slice(&salt);
                (h, k, rf::MAGIC_PASS.to_vec())
            } else {
                let w = rn::write_x(&rf::MAGIC_KEY, &s_priv, &rp::x25519_base(&s_priv), &e_priv, &rp::x25519_base(&e_priv), &rp::x25519_base(&r_priv), &payload);
                let mut h = rf::MAGIC_KEY.to_vec();
                h.extend_from_slice(&w.message);
                (h, rf::file_key(&payload, &w.h), vec![])
            };
            let mut src = CipherSource {
                header,
                hpos: 0,
                key,
                aad,
                plain: ByteStream::new(data_seed),
                plain_left: len,
                rec: Vec::with_capacity(CS + 64),
                rpos: 0,
                next_idx: 0,
                done: false,
                cap: s.cap,
                ptbuf: vec![0u8; CS],
                rec_pt: if s.rec == 0 { CS } else { s.rec.min(CS) },
                tail_left: s.tail,
                sh: sh.clone(),
            };
            let mut sink = PlainSink { expect: ByteStream::new(data_seed), total: 0, scratch: [0; 4096], wcap: s.wcap, rec: if s.rec == 0 { CS as u64 } else { s.rec.min(CS) as u64 }, sh: sh.clone() };
            let rk = PrivateKey::try_from(&r_priv[..]).unwrap();
            let rpk = PublicKey::try_from(&rp::x25519_base(&r_priv)[..]).unwrap();
            let pw = s.password.0.clone();
            alloc::start();
            let g = run_guarded(|| {
                if s.pass_mode {
                    kestrel_crypto::decrypt::pass_decrypt(&mut src, &mut sink, &pw, PassFileFormat::V1).map_err(|e| e.to_string())
                } else {
                    kestrel_crypto::decrypt::key_decrypt(&mut src, &mut sink, &rk, &rpk, AsymFileFormat::V1).map(|_| ()).map_err(|e| e.to_string())
                }
            });
            let stats = alloc::stop();
            let (ok, detail) = match g {
                Guarded::Returned(Ok(())) => (true, String::new()),
                Guarded::Returned(Err(e)) => (false, e),
                Guarded::Panicked(m) => (false, format!("panic: {}", m)),
                Guarded::Hang => (false, "hang".into()),
            };
            Measured { ok, detail, stats, out_bytes: sink.total, max_lag: sh.max_lag.get(), lag_violation: sh.lag_violation.get(), mismatch_at: sh.mismatch_at.get(), input_units: sh.input_units.get() }
        }
    }
}

impl Family for A6 {
    type Scenario = Scn;
    fn name(&self) -> &'static str {
        "a6"
    }
    fn properties(&self) -> &'static [&'static str] {
        &["C11"]
    }
    fn budget(&self, tier: Tier, _p: &str) -> u64 {
        match tier {
            Tier::Quick => 160,
            Tier::Thorough => 1200,
        }
    }
    fn generate(&self, rng: &mut Rng, tier: Tier, idx: u64) -> Scn {
        // the first 16 scenarios cover the (mode, direction, script, size class) grid
        let pass_mode = if idx < 16 { idx & 1 == 1 } else { rng.chance(1, 4) };
        let dir = if idx < 16 { if idx & 2 == 2 { Dir::Dec } else { Dir::Enc } } else if rng.chance(1, 2) { Dir::Enc } else { Dir::Dec };
        let short = if idx < 16 { idx & 4 == 4 } else { rng.chance(1, 2) };
        let sizes: &[u64] = if tier == Tier::Quick {
            &[0, 1, 65536, 300_000, 1 << 20, 4 << 20, 16 << 20, 64 << 20]
        } else {
            &[0, 1, 65535, 65536, 65537, 1 << 20, 16 << 20, 64 << 20, 256 << 20, 1 << 30, 4 << 30]
        };
        let mut len = if idx < 16 { if idx & 8 == 8 { 64 << 20 } else { 4 << 20 } } else { *rng.pick(sizes) };
        if rng.chance(1, 3) && len > 2 {
            len = len - 1 + rng.below(3);
        }
        let cap = if short { *rng.pick(&[1000usize, 4096, 65535, 30000, 65537]) } else { 0 };
        // tiny caps on huge inputs only cost time
        let cap = if cap > 0 && len / (cap as u64) > 200_000 { 65535 } else { cap };
        let wcap = if idx < 16 || rng.chance(1, 2) { 0 } else { *rng.pick(&[1000usize, 4096, 65535, 100000]) };
        let rec = if idx < 16 || dir == Dir::Enc || rng.chance(1, 2) { 0 } else { *rng.pick(&[1000usize, 4096, 30000, 65535]) };
        // keep the number of seam calls of one run in the low millions
        let wcap = if wcap > 0 && len / (wcap as u64) > 2_000_000 { 65535 } else { wcap };
        let rec = if rec > 0 && len / (rec as u64) > 2_000_000 { 30000 } else { rec };
        let mut scn = Scn { pass_mode, dir, len, cap, seed: rng.next_u64(), password: Hx(crate::gen::gen_password(rng)), wcap, rec, tail: 0 };
        // derived from the seed, not drawn: a quarter of the decryptions beyond the grid have a tail
        if scn.dir == Dir::Dec && idx >= 16 && scn.seed % 4 == 0 {
            scn.tail = [1u64, 100_000, 4 << 20, 64 << 20][((scn.seed >> 2) % 4) as usize];
        }
        scn
    }
    fn execute(&self, s: &Scn) -> RunOut {
        let mut out = RunOut::default();
        out.props = vec!["C11"];
        let base = run_one(&Scn { tail: 0, ..s.clone() }, BASE_LEN);
        let m = run_one(s, s.len);
        let name = format!("{} {:?} len={} read-cap={} write-cap={} chunk={}{}", if s.pass_mode { "pass" } else { "key" }, s.dir, s.len, s.cap, s.wcap, if s.rec == 0 { CS } else { s.rec }, if s.tail > 0 { format!(" followed by {} more bytes", s.tail) } else { String::new() });
        if s.tail > 0 {
            // (whether the file is refused is C03/C04's business; here only what refusing it costs)
            if m.ok {
                out.count("probe.file_with_tail_accepted", 1);
            }
            out.count("probe.files_with_tail", 1);
        } else if !m.ok || !base.ok {
            out.violations.push(viol("C11", "operation_failed", format!("{}: {} / baseline {}", name, m.detail, base.detail)));
        }
        if let Some(at) = m.mismatch_at {
            out.violations.push(viol("C11", "wrong_output", format!("{}: output differs from the plaintext at byte {}", name, at)));
        }
        let hl = if s.pass_mode { 36 } else { 132 } as u64;
        let want_out = match s.dir {
            Dir::Dec => s.len,
            Dir::Enc => hl + s.len + 32 * m.input_units.max(1),
        };
        if m.ok && s.tail == 0 && m.out_bytes != want_out {
            out.violations.push(viol("C11", "wrong_output_length", format!("{}: wrote {} bytes, expected {}", name, m.out_bytes, want_out)));
        }
        // (i) incremental output: chunk i is written before more than two further chunks are consumed
        if let Some((chunk, units)) = m.lag_violation {
            out.violations.push(viol("C11", "output_lags_input", format!("{}: first byte of output chunk {} was written only after {} input chunks had been consumed", name, chunk, units)));
        }
        // (ii) constant memory: relative to the same operation on 256 KiB (four chunks, steady state)
        if s.len >= BASE_LEN {
            if m.stats.peak > base.stats.peak + 65536 {
                out.violations.push(viol("C11", "peak_memory_grows_with_input", format!("{}: peak live heap {} bytes vs {} bytes for a 256 KiB input", name, m.stats.peak, base.stats.peak)));
            }
            let units = m.input_units.max(1);
            let base_units = base.input_units.max(1);
            let per_unit_budget = (base.stats.allocs / base_units + 2).max(8);
            if m.stats.allocs > base.stats.allocs + per_unit_budget * units {
                out.violations.push(viol("C11", "allocation_count_superlinear", format!("{}: {} allocations for {} chunks vs {} for {} chunks", name, m.stats.allocs, units, base.stats.allocs, base_units)));
            }
        } else if m.stats.peak > base.stats.peak + 65536 {
            out.violations.push(viol("C11", "small_input_uses_more_memory", format!("{}: peak {} vs {} at 256 KiB", name, m.stats.peak, base.stats.peak)));
        }
        out.steps = m.input_units + base.input_units;
        out.trace_hash = crate::rng::fnv64(format!("{}|{}|{}|{}|{}|{}", m.ok, m.out_bytes, m.max_lag, m.stats.peak, m.stats.allocs, m.input_units).as_bytes());
        out.count("probe.bytes_streamed", s.len);
        out.count("probe.max_lag_chunks", m.max_lag.max(0) as u64);
        out.count(&format!("probe.peak_kib.{}.{:?}", if s.pass_mode { "pass" } else { "key" }, s.dir), (m.stats.peak / 1024) as u64);
        if s.len >= 1 << 30 {
            out.count("probe.gib_scale_runs", 1);
        }
        let lc = if s.len == 0 { "0".to_string() } else { format!("2^{}", 64 - s.len.leading_zeros()) };
        out.signature = format!("a6|{}|{:?}|{}|cap{}|w{}|rec{}|{}", s.pass_mode, s.dir, lc, s.cap, s.wcap, s.rec, s.len % 65536 == 0);
        out.nontrivial = s.len > CS as u64 || s.cap > 0 || s.wcap > 0 || s.rec > 0;
        out
    }
    fn shrink(&self, s: &Scn) -> Vec<Scn> {
        let mut c = vec![];
        if s.tail > 0 {
            let mut t = s.clone();
            t.tail = 0;
            c.push(t);
        }
        for nl in [BASE_LEN, s.len / 2, s.len / 16] {
            if nl < s.len && nl >= BASE_LEN {
                let mut t = s.clone();
                t.len = nl;
                c.push(t);
            }
        }
        if s.cap > 0 {
            let mut t = s.clone();
            t.cap = 0;
            c.push(t);
        }
        if s.wcap > 0 {
            let mut t = s.clone();
            t.wcap = 0;
            c.push(t);
        }
        if s.rec > 0 {
            let mut t = s.clone();
            t.rec = 0;
            c.push(t);
        }
        c
    }
    fn real_components(&self) -> Vec<&'static str> {
        vec!["kestrel-crypto (working tree): key_encrypt, pass_encrypt, key_decrypt, pass_decrypt at the production chunk size", "orion", "the system allocator (observed, not replaced)"]
    }
    fn simulated_components(&self) -> Vec<&'static str> {
        vec!["lazy plaintext source (PRNG byte stream, no buffer)", "lazy ciphertext source (reference writer, one record at a time)", "comparing / parsing sinks", "allocator wrapper counting live and peak bytes of the operation"]
    }
}

//! Family A9 "keyring store": keyring files, encoded public keys and locked private keys as
//! durable records with storage faults, through the working tree's src/cli/src/keyring.rs
//! compiled into the simulator. Decides C15 and C17 in process; contributes the key/keyring
//! surfaces of C09.

use crate::engine::*;
use crate::fam::a1::hmac_equivalent;
use crate::hx::{to_hex, Hx};
use crate::keyring::{EncodedPk, EncodedSk, Keyring};
use crate::refmodel::{b64, keyring as rk};
use crate::rng::Rng;
use crate::seams::*;
use kestrel_crypto::{PrivateKey, PublicKey};
use serde::{Deserialize, Serialize};

#[derive(Serialize, Deserialize, Clone, Debug, PartialEq)]
pub enum Tok {
    Section,
    Name(String),
    Public(usize),
    Private(usize),
    Comment(String),
    Blank,
    Junk(String),
    /// indentation / spacing variant applied to the next token's line
    Raw(String),
}

#[derive(Serialize, Deserialize, Clone, Debug, PartialEq)]
pub enum TextFault {
    DropLine(usize),
    DupLine(usize),
    SwapLines(usize, usize),
    TearLine(usize, usize),
    FlipChar(usize, u8),
    TruncateAt(usize),
    InsertBytes(usize, String),
}

#[derive(Serialize, Deserialize, Clone, Debug)]
pub enum Kind {
    /// lock with kestrel == reference lock; both unlock both; other passwords rejected
    LockRoundTrip { sk: Hx, password: Hx, salt: Hx, others: Vec<Hx> },
    /// single-bit flips `from..to` of the 84-byte blob (672 bits in total)
    LockSweep { sk: Hx, password: Hx, salt: Hx, from: usize, to: usize },
    /// blobs that end in zero bytes, presented without those bytes (a lost tail that a decoder which
    /// zero-fills its buffer would silently restore): `tries` salts are searched for such a blob
    ShortBlob { sk: Hx, password: Hx, seed: u64, tries: usize },
    /// a locked-key *string* with a text-level fault, through EncodedSk::try_from + unlock
    LockedString { sk: Hx, salt: Hx, fault: TextFault },
    /// keyring text made of documented line forms: two-way comparison with the reference parser
    Tokens { toks: Vec<Tok>, crlf: bool },
    /// a valid keyring with line/byte level storage faults: one-way safety
    Torn { nkeys: usize, seed: u64, faults: Vec<TextFault> },
    /// what the tool writes, it reads (serialize_key -> append -> parse)
    WriteRead { names: Vec<String>, seed: u64 },
    /// every single-character corruption of an encoded public key
    PkCorrupt { pk: Hx },
    /// arbitrary strings of a given length as public key / private key / keyring
    Garbage { len: usize, seed: u64, alphabet: u8 },
}

#[derive(Serialize, Deserialize, Clone, Debug)]
pub struct Scn {
    pub kind: Kind,
}

/// Two instances: `locked` = locked private keys (scrypt-bound; C15), otherwise keyring text and
/// public-key encodings (C17).
pub struct A9 {
    pub locked: bool,
}

const FIXED_PW: &[u8] = b"a9-fixed-password";

fn a32(v: &[u8]) -> [u8; 32] {
    let mut a = [0u8; 32];
    a.copy_from_slice(v);
    a
}

/// value sets for token texts: public keys 0,1 valid and distinct; 2 bad length; 3 bad checksum
fn pub_value(i: usize) -> String {
    let k0 = [0x11u8; 32];
    let k1 = [0x22u8; 32];
    match i % 7 {
        0 => rk::encode_pk(&k0),
        1 => rk::encode_pk(&k1),
        2 => b64::encode(&[0x33u8; 35]),
        // not base64 at all in the documented sense: an interior space, a trailing pad, a line-wrap residue
        4 => {
            let mut e = rk::encode_pk(&k1);
            e.insert(10, ' ');
            e
        }
        5 => format!("{}=", rk::encode_pk(&k1)),
        6 => {
            let mut e = rk::encode_pk(&k1);
            e.insert(24, ' ');
            e.insert(12, ' ');
            e
        }
        _ => {
            let mut v = k0.to_vec();
            v.extend_from_slice(&[1, 2, 3, 4]);
            b64::encode(&v)
        }
    }
}

fn priv_value(i: usize) -> String {
    match i % 4 {
        3 => {
            let mut e = b64::encode(&{ let mut v = rk::SK_VERSION.to_vec(); v.extend_from_slice(&[0x44; 80]); v });
            e.insert(40, ' ');
            e
        }
        // well-formed 84-byte blobs (never unlocked here, so no scrypt)
        0 => b64::encode(&{ let mut v = rk::SK_VERSION.to_vec(); v.extend_from_slice(&[0x44; 80]); v }),
        1 => b64::encode(&{ let mut v = rk::SK_VERSION.to_vec(); v.extend_from_slice(&[0x55; 80]); v }),
        _ => b64::encode(&[0x66u8; 83]),
    }
}

fn render(toks: &[Tok], crlf: bool) -> String {
    let mut out = String::new();
    let mut prefix = String::new();
    for t in toks {
        let line = match t {
            Tok::Raw(p) => {
                prefix = p.clone();
                continue;
            }
            Tok::Section => "[Key]".to_string(),
            Tok::Name(n) => format!("Name = {}", n),
            Tok::Public(i) => format!("PublicKey = {}", pub_value(*i)),
            Tok::Private(i) => format!("PrivateKey = {}", priv_value(*i)),
            Tok::Comment(c) => format!("# {}", c),
            Tok::Blank => String::new(),
            Tok::Junk(j) => j.clone(),
        };
        out.push_str(&prefix);
        prefix.clear();
        out.push_str(&line);
        out.push_str(if crlf { "\r\n" } else { "\n" });
    }
    out
}

fn apply_text_faults(text: &str, faults: &[TextFault]) -> Vec<u8> {
    let mut lines: Vec<String> = text.split_inclusive('\n').map(|s| s.to_string()).collect();
    let mut bytes: Option<Vec<u8>> = None;
    for f in faults {
        match f {
            TextFault::DropLine(i) => {
                if !lines.is_empty() {
                    let n = lines.len();
                    lines.remove(i % n);
                }
            }
            TextFault::DupLine(i) => {
                if !lines.is_empty() {
                    let n = lines.len();
                    let l = lines[i % n].clone();
                    lines.insert(i % n, l);
                }
            }
            TextFault::SwapLines(i, j) => {
                if !lines.is_empty() {
                    let n = lines.len();
                    lines.swap(i % n, j % n);
                }
            }
            TextFault::TearLine(i, at) => {
                if !lines.is_empty() {
                    let n = lines.len();
                    let l = &mut lines[i % n];
                    let mut cut = at % (l.len() + 1);
                    while !l.is_char_boundary(cut) {
                        cut -= 1;
                    }
                    l.truncate(cut);
                }
            }
            _ => {
                let mut b = bytes.take().unwrap_or_else(|| lines.concat().into_bytes());
                match f {
                    TextFault::FlipChar(off, bit) => {
                        if !b.is_empty() {
                            let o = off % b.len();
                            b[o] ^= 1 << (bit & 7);
                        }
                    }
                    TextFault::TruncateAt(n) => {
                        let k = n % (b.len() + 1);
                        b.truncate(k);
                    }
                    TextFault::InsertBytes(off, s) => {
                        let o = off % (b.len() + 1);
                        for (k, x) in s.bytes().enumerate() {
                            b.insert(o + k, x);
                        }
                    }
                    _ => {}
                }
                bytes = Some(b);
            }
        }
    }
    bytes.unwrap_or_else(|| lines.concat().into_bytes())
}

/// Names in order from the derived Debug rendering of a Keyring.
fn debug_names(kr: &Keyring) -> Vec<String> {
    let d = format!("{:?}", kr);
    let mut out = vec![];
    let mut rest = d.as_str();
    while let Some(p) = rest.find("Key { name: \"") {
        rest = &rest[p + 13..];
        // the name is a Rust string literal: ends at the first unescaped quote
        let mut name = String::new();
        let mut chars = rest.chars();
        let mut esc = false;
        for c in chars.by_ref() {
            if esc {
                name.push('\\');
                name.push(c);
                esc = false;
            } else if c == '\\' {
                esc = true;
            } else if c == '"' {
                break;
            } else {
                name.push(c);
            }
        }
        rest = chars.as_str();
        out.push(name);
    }
    out
}

fn safe_entries(kr: &Keyring, text: &str, out: &mut RunOut, what: &str) {
    // one-way safety on an accepted keyring: complete, unambiguous entries
    let d = format!("{:?}", kr);
    let n = d.matches("Key { name: ").count();
    if n == 0 {
        out.violations.push(viol("C17", "accepted_without_entries", format!("{}: a keyring with no entries was accepted", what)));
    }
    // every name that appears on a Name line and resolves must resolve to a 36-byte public key
    let mut seen_names: Vec<String> = vec![];
    let mut seen_keys: Vec<String> = vec![];
    for line in text.lines() {
        let l = line.trim();
        if let Some((k, v)) = l.split_once('=') {
            let v = v.trim();
            if k.trim().starts_with("Name") {
                if let Some(key) = kr.get_key(v) {
                    if key.name.is_empty() || key.name.len() > 128 {
                        out.violations.push(viol("C17", "accepted_bad_name", format!("{}: accepted entry with a {}-byte name", what, key.name.len())));
                    }
                    match b64::decode(key.public_key.as_str()) {
                        Some(b) if b.len() == 36 => {}
                        _ => out.violations.push(viol("C17", "accepted_malformed_public_key", format!("{}: accepted entry '{}' whose public key is not base64 of 36 bytes", what, key.name))),
                    }
                    if let Some(sk) = &key.private_key {
                        match b64::decode(sk.as_str()) {
                            Some(b) if b.len() == 84 => {}
                            _ => out.violations.push(viol("C17", "accepted_malformed_private_key", format!("{}: accepted entry '{}' whose private key is not base64 of 84 bytes", what, key.name))),
                        }
                    }
                    if seen_names.contains(&key.name) {
                        // the same name text on two lines resolving is only fine if it is one entry; count entries by name in Debug
                        let cnt = debug_names(kr).iter().filter(|x| **x == format!("{}", key.name.escape_debug())).count();
                        if cnt > 1 {
                            out.violations.push(viol("C17", "accepted_duplicate_name", format!("{}: name '{}' occurs {} times in an accepted keyring", what, key.name, cnt)));
                        }
                    }
                    seen_names.push(key.name.clone());
                    let pk = key.public_key.as_str().to_string();
                    if !seen_keys.contains(&pk) {
                        seen_keys.push(pk);
                    }
                }
            }
        }
    }
    let names = debug_names(kr);
    let mut sorted = names.clone();
    sorted.sort();
    sorted.dedup();
    if sorted.len() != names.len() {
        out.violations.push(viol("C17", "accepted_duplicate_name", format!("{}: duplicate names in an accepted keyring: {:?}", what, names)));
    }
    // public keys pairwise distinct: count occurrences in the Debug rendering
    let mut pks: Vec<&str> = d.split("public_key: EncodedPk(\"").skip(1).map(|s| s.split('"').next().unwrap_or("")).collect();
    let total = pks.len();
    pks.sort();
    pks.dedup();
    if pks.len() != total {
        out.violations.push(viol("C17", "accepted_duplicate_public_key", format!("{}: duplicate public keys in an accepted keyring", what)));
    }
}

impl A9 {
    fn run(&self, s: &Scn) -> RunOut {
        let mut out = RunOut::default();
        let mut sig = String::new();
        let mut th: u64 = 0;
        let mut note = |x: &str, th: &mut u64| {
            *th = th.rotate_left(7) ^ crate::rng::fnv64(x.as_bytes());
        };
        match &s.kind {
            Kind::LockRoundTrip { sk, password, salt, others } => {
                out.props = vec!["C15", "C09"];
                sig = format!("lock|pw{}|o{}", password.0.len().min(70), others.len());
                let skb = a32(&sk.0);
                let saltb = a32(&salt.0);
                let key = PrivateKey::try_from(&sk.0[..]).unwrap();
                let g = run_guarded(|| Keyring::lock_private_key(&key, &password.0, saltb).as_str().to_string());
                let locked = match g {
                    Guarded::Returned(l) => l,
                    other => {
                        out.violations.push(viol("C15", "lock_panicked", format!("{:?}", other)));
                        String::new()
                    }
                };
                note(&locked, &mut th);
                let want = rk::lock_with_key(&skb, &crate::ops::ref_scrypt_cached(&password.0, &saltb), &saltb);
                if locked != want {
                    out.violations.push(viol("C15", "format_differs", format!("locked string differs from the documented format: got {} want {}", &locked[..locked.len().min(24)], &want[..24])));
                }
                // layout: base64 of 65 67 6B 30 || salt || 48 bytes
                match b64::decode(&locked) {
                    Some(b) if b.len() == 84 && b[..4] == rk::SK_VERSION && b[4..36] == saltb => {}
                    _ => out.violations.push(viol("C15", "layout", "locked string is not base64(version || salt || 48 bytes)".into())),
                }
                // kestrel unlocks what the reference locked, and the reference unlocks what kestrel locked
                let unlock = |s: &str, pw: &[u8]| -> Guarded<Option<Vec<u8>>> {
                    let s = s.to_string();
                    let pw = pw.to_vec();
                    run_guarded(move || match EncodedSk::try_from(s.as_str()) {
                        Ok(e) => Keyring::unlock_private_key(&e, &pw).ok().map(|k| k.as_bytes().to_vec()),
                        Err(_) => None,
                    })
                };
                match unlock(&want, &password.0) {
                    Guarded::Returned(Some(k)) if k == sk.0 => {}
                    other => out.violations.push(viol("C15", "reference_locked_key_not_unlocked", format!("a key locked by the reference implementation did not unlock to the original: {:?}", other))),
                }
                if !locked.is_empty() {
                    if rk::unlock_with(&locked, &mut |sl| crate::ops::ref_scrypt_cached(&password.0, sl)) != Some(skb) {
                        out.violations.push(viol("C15", "kestrel_locked_key_not_unlocked_by_reference", "the reference implementation cannot unlock what kestrel locked".into()));
                    }
                    match unlock(&locked, &password.0) {
                        Guarded::Returned(Some(k)) if k == sk.0 => {}
                        other => out.violations.push(viol("C15", "round_trip", format!("unlock(lock(k, w), w) != k: {:?}", other))),
                    }
                }
                for o in others {
                    if o.0 == password.0 {
                        continue;
                    }
                    out.count("probe.other_password_tried", 1);
                    match unlock(&want, &o.0) {
                        Guarded::Returned(None) => {}
                        Guarded::Returned(Some(_)) => {
                            if hmac_equivalent(&o.0, &password.0) {
                                out.count("probe.hmac_equivalent_password_accepted", 1);
                                out.violations.push(viol("C15", "other_password_unlocks_hmac_equivalent", format!("the different but HMAC-equivalent password {} unlocks a key locked under {}", to_hex(&o.0), to_hex(&password.0))));
                            } else {
                                out.violations.push(viol("C15", "other_password_unlocks", format!("password {} unlocks a key locked under {}", to_hex(&o.0), to_hex(&password.0))));
                            }
                        }
                        other => out.violations.push(viol("C09", "panic_unlock_private_key", format!("{:?}", other))),
                    }
                }
            }
            Kind::LockSweep { sk, password, salt, from, to } => {
                out.props = vec!["C15", "C09"];
                sig = format!("sweep|{}", from / 32);
                let skb = a32(&sk.0);
                let saltb = a32(&salt.0);
                let locked = rk::lock_with_key(&skb, &crate::ops::ref_scrypt_cached(&password.0, &saltb), &saltb);
                let blob = b64::decode(&locked).unwrap();
                for bit in *from..(*to).min(672) {
                    let mut b = blob.clone();
                    b[bit / 8] ^= 1 << (bit % 8);
                    let txt = b64::encode(&b);
                    let pw = password.0.clone();
                    let g = run_guarded(move || match EncodedSk::try_from(txt.as_str()) {
                        Ok(e) => Keyring::unlock_private_key(&e, &pw).is_ok(),
                        Err(_) => false,
                    });
                    out.count("fault.locked_key.bit_flip", 1);
                    note(&format!("{}:{:?}", bit, g), &mut th);
                    match g {
                        Guarded::Returned(false) => {}
                        Guarded::Returned(true) => out.violations.push(viol("C15", "bit_rot_accepted", format!("flipping bit {} of byte {} of the 84-byte blob still unlocks", bit % 8, bit / 8))),
                        other => out.violations.push(viol("C09", "panic_unlock_private_key", format!("bit {}: {:?}", bit, other))),
                    }
                }
            }
            Kind::ShortBlob { sk, password, seed, tries } => {
                out.props = vec!["C15", "C09"];
                sig = "shortblob".into();
                let skb = a32(&sk.0);
                let mut r = Rng::new(*seed);
                // one salt known to give a blob ending in 0x00 (found once, cached), then fresh ones
                let known = zero_tail_salt(&skb, &password.0);
                for t in 0..*tries {
                    let saltb = if t == 0 { known.unwrap_or_else(|| r.arr32()) } else { r.arr32() };
                    let locked = rk::lock_with_key(&skb, &crate::refmodel::scrypt::product(&password.0, &saltb), &saltb);
                    let blob = b64::decode(&locked).unwrap();
                    let z = blob.iter().rev().take_while(|b| **b == 0).count();
                    if z == 0 {
                        continue;
                    }
                    out.count("probe.blob_with_zero_tail_found", 1);
                    for k in 1..=z.min(3) {
                        let txt = b64::encode(&blob[..84 - k]);
                        let pw = password.0.clone();
                        let t2 = txt.clone();
                        let g = run_guarded(move || match EncodedSk::try_from(t2.as_str()) {
                            Ok(e) => Keyring::unlock_private_key(&e, &pw).is_ok(),
                            Err(_) => false,
                        });
                        note(&format!("{}:{:?}", k, g), &mut th);
                        match g {
                            Guarded::Returned(false) => {}
                            Guarded::Returned(true) => out.violations.push(viol("C15", "short_blob_accepted", format!("a locked key of {} bytes (the last {} zero bytes of the 84 missing) unlocks", 84 - k, k))),
                            other => out.violations.push(viol("C09", "panic_unlock_private_key", format!("{:?}", other))),
                        }
                    }
                }
            }
            Kind::LockedString { sk, salt, fault } => {
                out.props = vec!["C15", "C09"];
                let skb = a32(&sk.0);
                let saltb = a32(&salt.0);
                let locked = rk::lock_with_key(&skb, &crate::ops::ref_scrypt_cached(FIXED_PW, &saltb), &saltb);
                let bytes = apply_text_faults(&locked, std::slice::from_ref(fault));
                sig = format!("lstr|{}", tf_class(fault));
                out.count(&format!("fault.text.{}", tf_class(fault)), 1);
                if let Ok(txt) = String::from_utf8(bytes) {
                    let same_blob = b64::decode(&txt) == b64::decode(&locked) && b64::decode(&txt).is_some();
                    let t2 = txt.clone();
                    let g = run_guarded(move || match EncodedSk::try_from(t2.as_str()) {
                        Ok(e) => Keyring::unlock_private_key(&e, FIXED_PW).ok().map(|k| k.as_bytes().to_vec()),
                        Err(_) => None,
                    });
                    note(&format!("{:?}", g), &mut th);
                    match g {
                        Guarded::Returned(None) => {
                            if same_blob {
                                out.violations.push(viol("C15", "authentic_string_rejected", "the unchanged locked string did not unlock".into()));
                            }
                        }
                        Guarded::Returned(Some(k)) => {
                            if !same_blob {
                                out.violations.push(viol("C15", "damaged_string_accepted", format!("a damaged locked-key string ({:?}) unlocked", fault)));
                            } else if k != sk.0 {
                                out.violations.push(viol("C15", "round_trip", "unlocked to a different key".into()));
                            }
                        }
                        other => out.violations.push(viol("C09", "panic_locked_key_string", format!("{:?}: {:?}", fault, other))),
                    }
                }
            }
            Kind::Tokens { toks, crlf } => {
                out.props = vec!["C17", "C09"];
                let text = render(toks, *crlf);
                sig = format!("tok|{}|{}", toks.iter().map(tok_char).collect::<String>(), crlf);
                let t2 = text.clone();
                let g = run_guarded(move || Keyring::new(&t2).ok());
                let want = rk::parse(&text);
                match g {
                    Guarded::Returned(got) => {
                        note(&format!("{:?}", got.as_ref().map(|k| format!("{:?}", k))), &mut th);
                        match (&got, &want) {
                            (None, None) => out.count("probe.tokens_both_reject", 1),
                            (Some(_), None) => out.violations.push(viol("C17", "accepts_what_the_format_rejects", format!("accepted a keyring the documented format rejects:\n{}", text))),
                            (None, Some(_)) => out.violations.push(viol("C17", "rejects_valid_keyring", format!("rejected a valid keyring:\n{}", text))),
                            (Some(kr), Some(entries)) => {
                                out.count("probe.tokens_both_accept", 1);
                                let names = debug_names(kr);
                                let want_names: Vec<String> = entries.iter().map(|e| e.name.escape_debug().to_string()).collect();
                                if names != want_names {
                                    out.violations.push(viol("C17", "entries_differ", format!("entries {:?}, the file's sections are {:?}", names, want_names)));
                                }
                                for e in entries {
                                    match kr.get_key(&e.name) {
                                        Some(k) if k.public_key.as_str() == e.public && k.private_key.as_ref().map(|p| p.as_str().to_string()) == e.private => {}
                                        _ => out.violations.push(viol("C17", "lookup_by_name", format!("get_key({:?}) does not return the section's keys", e.name))),
                                    }
                                    if let Ok(epk) = EncodedPk::try_from(e.public.as_str()) {
                                        // (owned or borrowed: either return type is fine)
                                        if kr.get_name_from_key(&epk).map(|n| n.to_string()) != Some(e.name.clone()) {
                                            out.violations.push(viol("C17", "lookup_by_key", format!("get_name_from_key does not return {:?}", e.name)));
                                        }
                                    }
                                }
                                safe_entries(kr, &text, &mut out, "token text");
                            }
                        }
                    }
                    other => {
                        out.violations.push(viol("C09", "panic_keyring_parse", format!("{:?} on\n{}", other, text)));
                        out.violations.push(viol("C17", "parser_crashed", format!("{:?} on\n{}", other, text)));
                    }
                }
            }
            Kind::Torn { nkeys, seed, faults } => {
                out.props = vec!["C17", "C09"];
                let mut r = Rng::new(*seed);
                let mut text = String::new();
                for i in 0..*nkeys {
                    let pk = r.arr32();
                    text.push_str(&format!("[Key]\nName = key{}-{}\nPublicKey = {}\n", i, r.below(1000), rk::encode_pk(&pk)));
                    if r.chance(1, 2) {
                        text.push_str(&format!("PrivateKey = {}\n", priv_value(i)));
                    }
                    if r.chance(1, 2) {
                        text.push('\n');
                    }
                }
                let bytes = apply_text_faults(&text, faults);
                sig = format!("torn|{}|{}", nkeys, faults.iter().map(tf_class).collect::<Vec<_>>().join("+"));
                for f in faults {
                    out.count(&format!("fault.text.{}", tf_class(f)), 1);
                }
                if let Ok(t) = String::from_utf8(bytes) {
                    let t2 = t.clone();
                    let g = run_guarded(move || Keyring::new(&t2).ok());
                    match g {
                        Guarded::Returned(Some(kr)) => {
                            out.count("probe.torn_accepted", 1);
                            note(&format!("{:?}", kr), &mut th);
                            safe_entries(&kr, &t, &mut out, "torn text");
                        }
                        Guarded::Returned(None) => {
                            out.count("probe.torn_rejected", 1);
                        }
                        other => {
                            out.violations.push(viol("C09", "panic_keyring_parse", format!("{:?} on {:?}", other, t)));
                            out.violations.push(viol("C17", "parser_crashed", format!("{:?} on {:?}", other, t)));
                        }
                    }
                } else {
                    out.count("probe.torn_not_utf8", 1);
                }
            }
            Kind::WriteRead { names, seed } => {
                out.props = vec!["C17"];
                sig = format!("wr|{}", names.iter().map(|n| name_class(n)).collect::<Vec<_>>().join(","));
                let mut r = Rng::new(*seed);
                let mut file = String::new();
                let mut written: Vec<(String, String, String)> = vec![];
                for n in names {
                    // what `key generate` does: trim the line read from stdin, validate, serialise, append
                    let name = n.trim().to_string();
                    if !Keyring::valid_key_name(&name) {
                        out.count("probe.name_refused_by_generate", 1);
                        continue;
                    }
                    if written.iter().any(|w| w.0 == name) {
                        continue;
                    }
                    let pk = r.arr32();
                    let epk = Keyring::encode_public_key(&PublicKey::try_from(&pk[..]).unwrap());
                    let esk = EncodedSk::try_from(priv_value(0).as_str()).unwrap();
                    let cfg = Keyring::serialize_key(&name, &epk, &esk);
                    if !file.is_empty() {
                        file.push('\n');
                    }
                    file.push_str(&cfg);
                    written.push((name, epk.as_str().to_string(), esk.as_str().to_string()));
                }
                if !written.is_empty() {
                    let f2 = file.clone();
                    match run_guarded(move || Keyring::new(&f2).ok()) {
                        Guarded::Returned(Some(kr)) => {
                            note(&format!("{:?}", kr), &mut th);
                            for (name, pk, sk) in &written {
                                match kr.get_key(name) {
                                    Some(k) if k.public_key.as_str() == pk && k.private_key.as_ref().map(|s| s.as_str()) == Some(sk.as_str()) => {}
                                    Some(_) => out.violations.push(viol("C17", "written_key_reads_back_different", format!("name {:?} reads back with different keys", name))),
                                    None => out.violations.push(viol("C17", "written_name_not_found", format!("a key written under the accepted name {:?} ({}) cannot be found by that name after parsing", name, name_class(name)))),
                                }
                            }
                            let names_back = debug_names(&kr);
                            if names_back.len() != written.len() {
                                out.violations.push(viol("C17", "written_entries_count", format!("{} keys written, {} entries parsed", written.len(), names_back.len())));
                            }
                        }
                        Guarded::Returned(None) => out.violations.push(viol("C17", "written_keyring_rejected", format!("a keyring the tool wrote (names {:?}) does not parse", written.iter().map(|w| w.0.clone()).collect::<Vec<_>>()))),
                        other => out.violations.push(viol("C09", "panic_keyring_parse", format!("{:?}", other))),
                    }
                }
            }
            Kind::PkCorrupt { pk } => {
                out.props = vec!["C17", "C09"];
                sig = "pkcorrupt".into();
                let good = rk::encode_pk(&a32(&pk.0));
                let alphabet = b"ABCDEFGHIJKLMNOPQRSTUVWXYZabcdefghijklmnopqrstuvwxyz0123456789+/=-_ ";
                for pos in 0..good.len() {
                    for &c in alphabet.iter() {
                        let mut t = good.clone().into_bytes();
                        if t[pos] == c {
                            continue;
                        }
                        t[pos] = c;
                        let txt = String::from_utf8(t).unwrap();
                        let t2 = txt.clone();
                        let g = run_guarded(move || match EncodedPk::try_from(t2.as_str()) {
                            Ok(e) => Keyring::decode_public_key(&e).ok().map(|k| k.as_bytes().to_vec()),
                            Err(_) => None,
                        });
                        out.count("fault.public_key.char_corruption", 1);
                        match g {
                            Guarded::Returned(None) => {}
                            Guarded::Returned(Some(k)) => {
                                // usable only if the 36 decoded bytes are unchanged
                                let same = b64::decode(&txt).map(|b| b == b64::decode(&good).unwrap()).unwrap_or(false);
                                if !same || k != pk.0 {
                                    out.violations.push(viol("C17", "corrupted_public_key_usable", format!("{} (character {} changed to {:?}) decodes to a usable key", txt, pos, c as char)));
                                }
                            }
                            other => out.violations.push(viol("C09", "panic_public_key_decode", format!("{:?} on {}", other, txt))),
                        }
                    }
                }
                // and the intact encoding is usable
                let g2 = good.clone();
                match run_guarded(move || EncodedPk::try_from(g2.as_str()).ok().and_then(|e| Keyring::decode_public_key(&e).ok()).map(|k| k.as_bytes().to_vec())) {
                    Guarded::Returned(Some(k)) if k == pk.0 => {}
                    other => out.violations.push(viol("C17", "valid_public_key_refused", format!("{:?}", other))),
                }
                note(&good, &mut th);
            }
            Kind::Garbage { len, seed, alphabet } => {
                out.props = vec!["C09", "C17", "C15"];
                sig = format!("garbage|{}|{}", alphabet, (*len).min(130) / 10);
                let mut r = Rng::new(*seed);
                let txt: String = match alphabet {
                    0 => (0..*len).map(|_| *r.pick(&b"ABCDEFGHIJKLMNOPQRSTUVWXYZabcdefghijklmnopqrstuvwxyz0123456789+/"[..]) as char).collect(),
                    1 => (0..*len).map(|_| *r.pick(&b"AZaz09+/=\n\t #[]Key"[..]) as char).collect(),
                    2 => (0..*len).map(|_| char::from_u32(r.range(1, 0x2fff) as u32).unwrap_or('x')).collect(),
                    _ => "=".repeat(*len),
                };
                let t1 = txt.clone();
                let t2 = txt.clone();
                let t3 = txt.clone();
                let a = run_guarded(move || EncodedPk::try_from(t1.as_str()).ok().map(|e| Keyring::decode_public_key(&e).is_ok()));
                let b = run_guarded(move || EncodedSk::try_from(t2.as_str()).is_ok());
                let c = run_guarded(move || Keyring::new(&t3).is_ok());
                note(&format!("{:?}{:?}{:?}", a, b, c), &mut th);
                if let Guarded::Panicked(m) = &a {
                    out.violations.push(viol("C09", "panic_public_key_decode", format!("{} on {:?}", m, txt)));
                }
                if let Guarded::Panicked(m) = &b {
                    out.violations.push(viol("C09", "panic_locked_key_string", format!("{} on {:?}", m, txt)));
                }
                if let Guarded::Panicked(m) = &c {
                    out.violations.push(viol("C09", "panic_keyring_parse", format!("{} on {:?}", m, txt)));
                    out.violations.push(viol("C17", "parser_crashed", format!("{} on {:?}", m, txt)));
                }
            }
        }
        out.trace_hash = th ^ crate::rng::fnv64(sig.as_bytes());
        out.steps = 1;
        out.signature = format!("a9|{}", sig);
        out.nontrivial = true;
        out
    }
}

/// A salt under which lock(sk, password) ends in a zero byte. The search (about 256 scrypt
/// evaluations) is done once per (sk, password) and kept in /verif/build/cache; the ShortBlob
/// scenarios all use one fixed (sk, password) pair so that the cache hits.
fn zero_tail_salt(sk: &[u8; 32], password: &[u8]) -> Option<[u8; 32]> {
    // one search per process even when the cache file is missing (all workers share the fixture)
    static ONCE: std::sync::OnceLock<Option<[u8; 32]>> = std::sync::OnceLock::new();
    let (fsk, fpw) = short_blob_fixture();
    if *sk == fsk && password == &fpw[..] {
        return *ONCE.get_or_init(|| zero_tail_salt_search(sk, password));
    }
    zero_tail_salt_search(sk, password)
}

fn zero_tail_salt_search(sk: &[u8; 32], password: &[u8]) -> Option<[u8; 32]> {
    let tag = crate::rng::fnv64(&[&sk[..], password].concat());
    let path = format!("{}/build/cache/zero-tail-{:016x}.hex", crate::root(), tag);
    if let Ok(t) = std::fs::read_to_string(&path) {
        if let Some(v) = crate::hx::from_hex(t.trim()) {
            if v.len() == 32 {
                return Some(a32(&v));
            }
        }
    }
    let mut r = Rng::new(tag);
    for _ in 0..2000 {
        let salt = r.arr32();
        let locked = rk::lock_with_key(sk, &crate::refmodel::scrypt::product(password, &salt), &salt);
        if b64::decode(&locked).map(|b| b[83] == 0).unwrap_or(false) {
            let _ = std::fs::create_dir_all(format!("{}/build/cache", crate::root()));
            let _ = std::fs::write(&path, crate::hx::to_hex(&salt));
            return Some(salt);
        }
    }
    None
}

pub fn warm_caches() {
    let (sk, pw) = short_blob_fixture();
    let _ = zero_tail_salt(&sk, &pw);
}

fn short_blob_fixture() -> ([u8; 32], Vec<u8>) {
    ([0x42u8; 32], b"short-blob-fixture".to_vec())
}

fn tok_char(t: &Tok) -> char {
    match t {
        Tok::Section => 'S',
        Tok::Name(_) => 'N',
        Tok::Public(i) => ['P', 'Q', 'L', 'X', 'S', 'E', 'T'][i % 7],
        Tok::Private(i) => ['V', 'W', 'B', 'Z'][i % 4],
        Tok::Comment(_) => '#',
        Tok::Blank => '_',
        Tok::Junk(_) => 'J',
        Tok::Raw(_) => 'r',
    }
}

fn tf_class(f: &TextFault) -> &'static str {
    match f {
        TextFault::DropLine(_) => "drop_line",
        TextFault::DupLine(_) => "dup_line",
        TextFault::SwapLines(..) => "swap_lines",
        TextFault::TearLine(..) => "tear_line",
        TextFault::FlipChar(..) => "flip_char",
        TextFault::TruncateAt(_) => "truncate",
        TextFault::InsertBytes(..) => "insert",
    }
}

pub use crate::gen::name_class;

pub fn gen_name(rng: &mut Rng) -> String {
    match rng.below(14) {
        0 => "alice".into(),
        1 => "Bobby Bobertson".into(),
        2 => "a\tb".into(),
        3 => "x".repeat(128),
        4 => "k=v=w".into(),
        5 => "# not a comment".into(),
        6 => "[Key]".into(),
        7 => "Zoë 鍵 🔑".into(),
        8 => "Name".into(),
        9 => "PublicKey = abc".into(),
        10 => "two  spaces".into(),
        11 => "tab\tin\tmiddle".into(),
        12 => format!("user{}", rng.below(100000)),
        _ => "x".repeat(129),
    }
}

impl Family for A9 {
    type Scenario = Scn;
    fn name(&self) -> &'static str {
        if self.locked {
            "a9l"
        } else {
            "a9k"
        }
    }
    fn properties(&self) -> &'static [&'static str] {
        if self.locked {
            &["C15", "C09"]
        } else {
            &["C17", "C09"]
        }
    }
    fn budget(&self, tier: Tier, p: &str) -> u64 {
        let q = match (self.locked, p) {
            (true, "C15") => 200,
            (true, _) => 120,
            (false, "C17") => 400000,
            (false, _) => 50000,
        };
        q * match tier {
            Tier::Quick => 1,
            Tier::Thorough => 16,
        }
    }
    fn generate(&self, rng: &mut Rng, tier: Tier, idx: u64) -> Scn {
        // the mix depends on which checks call this family; the run index lays out the
        // scrypt-bound C15 kinds first so that small budgets still contain a complete sweep
        let sk = {
            // mostly random keys; also constant-fill and sparse ones (legal 32-byte keys like any other)
            let mut b = match rng.below(8) {
                0 => vec![*rng.pick(&[0x00u8, 0xff, 0x55, 0x01]); 32],
                1 => {
                    let mut v = vec![0u8; 32];
                    v[rng.usize_below(32)] = 1 + rng.below(255) as u8;
                    v
                }
                _ => rng.bytes(32),
            };
            if rng.chance(1, 2) {
                b[0] |= 1;
            }
            Hx(b)
        };
        let salt = Hx(rng.bytes(32));
        let sweeps = if tier == Tier::Quick { 1 } else { 8 };
        if self.locked && idx < 16 * sweeps {
            // 16 slices of 42 bits = the complete 672-bit sweep of one key
            let mut kr = Rng::new(0xC15 + idx / 16);
            let sk = {
                let mut b = kr.bytes(32);
                b[0] |= 1;
                Hx(b)
            };
            let salt = Hx(kr.bytes(32));
            let password = Hx(crate::gen::gen_password(&mut kr));
            let k = (idx % 16) as usize;
            return Scn { kind: Kind::LockSweep { sk, password, salt, from: k * 42, to: (k + 1) * 42 } };
        }
        if self.locked && rng.chance(1, 6) {
            let (fsk, fpw) = short_blob_fixture();
            return Scn { kind: Kind::ShortBlob { sk: Hx(fsk.to_vec()), password: Hx(fpw), seed: rng.next_u64(), tries: 2 } };
        }
        let roll = if self.locked { rng.below(12) } else { 12 + rng.below(88) };
        let kind = match roll {
            0..=1 => {
                let password = Hx(crate::gen::gen_password(rng));
                let mut others = vec![];
                for _ in 0..rng.range(1, 2) {
                    let p = &password.0;
                    others.push(Hx(match rng.below(5) {
                        0 if !p.is_empty() => p[..p.len() - 1].to_vec(),
                        1 => [p.clone(), vec![b'x']].concat(),
                        2 if !p.is_empty() => {
                            let mut q = p.clone();
                            let i = rng.usize_below(q.len());
                            q[i] ^= 1 << rng.below(8);
                            q
                        }
                        3 => {
                            if p.len() > 64 {
                                crate::refmodel::prims::sha256(p).to_vec()
                            } else {
                                [p.clone(), vec![0]].concat()
                            }
                        }
                        _ => crate::gen::gen_password(rng),
                    }));
                }
                // with / without a trailing line terminator or blank: two different passwords (derived, not drawn)
                let mut trimmed = password.0.clone();
                while matches!(trimmed.last(), Some(b'\n') | Some(b'\r') | Some(b' ')) {
                    trimmed.pop();
                }
                if trimmed != password.0 {
                    others.push(Hx(trimmed));
                } else if crate::rng::fnv64(&password.0) % 2 == 1 {
                    others.push(Hx([password.0.clone(), if crate::rng::fnv64(&password.0) % 4 == 1 { b"\n".to_vec() } else { b"\r\n".to_vec() }].concat()));
                }
                Kind::LockRoundTrip { sk, password, salt, others }
            }
            2..=11 => {
                let f = match rng.below(5) {
                    0 => TextFault::TruncateAt(rng.usize_below(113)),
                    1 => TextFault::InsertBytes(rng.usize_below(113), (*rng.pick(&["A", "=", " ", "\n", "é", "-", "AAAA"])).to_string()),
                    2 => TextFault::FlipChar(rng.usize_below(112), rng.below(8) as u8),
                    3 => TextFault::TearLine(0, rng.usize_below(113)),
                    _ => TextFault::InsertBytes(112, "=".into()),
                };
                // text faults that leave 84 decodable bytes cost one scrypt; most do not
                Kind::LockedString { sk, salt: Hx(vec![7u8; 32]), fault: f }
            }
            12..=51 => {
                // token texts: mostly near-valid
                let n = rng.range(1, 10) as usize;
                let mut toks = vec![];
                let names = ["alice", "bob"];
                for _ in 0..n {
                    let t = match rng.below(24) {
                        0..=5 => Tok::Section,
                        6..=9 => Tok::Name(rng.pick(&names).to_string()),
                        10..=13 => Tok::Public(rng.usize_below(2)),
                        14 => Tok::Public(2 + rng.usize_below(5)),
                        15..=16 => Tok::Private(rng.usize_below(2)),
                        17 => Tok::Private(2 + rng.usize_below(2)),
                        18 => Tok::Comment("comment = with [Key] inside".into()),
                        19 => Tok::Blank,
                        20 => Tok::Junk((*rng.pick(&["garbage", "Key]", "name = lower", "= nothing", "Nam = x"])).to_string()),
                        21 => Tok::Name((*rng.pick(&["", "k=v", "x y", "# hash"])).to_string()),
                        22 => Tok::Raw((*rng.pick(&["  ", "\t", " \t "])).to_string()),
                        _ => match rng.below(5) {
                            0 => Tok::Name(format!("a{}", "\u{e9}".repeat(64))),  // 129 bytes, byte 128 inside a character
                            1 => Tok::Name("\u{20ac}".repeat(43)),                 // 129 bytes
                            2 => Tok::Name("\u{e9}".repeat(64)),                   // exactly 128 bytes: valid
                            _ => Tok::Name("x".repeat(*rng.pick(&[1usize, 128, 129]))),
                        },
                    };
                    toks.push(t);
                }
                // names are case-sensitive: some of the plain names appear capitalised or in capitals (position-
                // derived, not drawn), so that "alice", "Alice" and "ALICE" can be three entries of one keyring
                for (i, t) in toks.iter_mut().enumerate() {
                    if let Tok::Name(nm) = t {
                        if nm == "alice" || nm == "bob" {
                            match (i + n) % 4 {
                                0 => *nm = format!("{}{}", nm[..1].to_uppercase(), &nm[1..]),
                                1 => *nm = nm.to_uppercase(),
                                _ => {}
                            }
                        }
                    }
                }
                Kind::Tokens { toks, crlf: rng.chance(1, 5) }
            }
            52..=61 => {
                // valid keyrings under <= 3 line-level storage faults: still token texts? no - rendered
                // from sections, so compare two-way as tokens
                let nk = rng.range(1, 3) as usize;
                let mut toks = vec![];
                for i in 0..nk {
                    toks.push(Tok::Section);
                    toks.push(Tok::Name(["alice", "bob", "carol"][i].to_string()));
                    toks.push(Tok::Public(i.min(1) + if i == 2 { 0 } else { 0 }));
                    if rng.chance(1, 2) {
                        toks.push(Tok::Private(i % 2));
                    }
                }
                // line-level faults on the token list itself keep it a token text
                for _ in 0..rng.range(0, 3) {
                    if toks.is_empty() {
                        break;
                    }
                    let n = toks.len();
                    match rng.below(4) {
                        0 => {
                            toks.remove(rng.usize_below(n));
                        }
                        1 => {
                            let t = toks[rng.usize_below(n)].clone();
                            toks.insert(rng.usize_below(n + 1), t);
                        }
                        2 => toks.swap(rng.usize_below(n), rng.usize_below(n)),
                        _ => {
                            let t = toks.remove(rng.usize_below(n));
                            let m = toks.len();
                            toks.insert(rng.usize_below(m + 1), t);
                        }
                    }
                }
                Kind::Tokens { toks, crlf: false }
            }
            62..=81 => {
                let nf = rng.range(1, 3);
                let faults = (0..nf)
                    .map(|_| match rng.below(7) {
                        0 => TextFault::DropLine(rng.usize_below(20)),
                        1 => TextFault::DupLine(rng.usize_below(20)),
                        2 => TextFault::SwapLines(rng.usize_below(20), rng.usize_below(20)),
                        3 => TextFault::TearLine(rng.usize_below(20), rng.usize_below(140)),
                        4 => TextFault::FlipChar(rng.usize_below(600), rng.below(8) as u8),
                        5 => TextFault::TruncateAt(rng.usize_below(600)),
                        _ => TextFault::InsertBytes(rng.usize_below(600), (*rng.pick(&["\n", "\t", "=", "[Key]\n", "Name = dup\n", "é", "\r"])).to_string()),
                    })
                    .collect();
                Kind::Torn { nkeys: rng.range(1, 4) as usize, seed: rng.next_u64(), faults }
            }
            82..=89 => {
                let n = rng.range(1, 4);
                Kind::WriteRead { names: (0..n).map(|_| gen_name(rng)).collect(), seed: rng.next_u64() }
            }
            90..=91 => Kind::PkCorrupt { pk: Hx(rng.bytes(32)) },
            _ => Kind::Garbage { len: rng.usize_below(131), seed: rng.next_u64(), alphabet: rng.below(4) as u8 },
        };
        Scn { kind }
    }
    fn execute(&self, s: &Scn) -> RunOut {
        self.run(s)
    }
    fn shrink(&self, s: &Scn) -> Vec<Scn> {
        let mut c = vec![];
        match &s.kind {
            Kind::Tokens { toks, crlf } => {
                for i in 0..toks.len() {
                    let mut t = toks.clone();
                    t.remove(i);
                    c.push(Scn { kind: Kind::Tokens { toks: t, crlf: *crlf } });
                }
                if *crlf {
                    c.push(Scn { kind: Kind::Tokens { toks: toks.clone(), crlf: false } });
                }
            }
            Kind::Torn { nkeys, seed, faults } => {
                for i in 0..faults.len() {
                    if faults.len() > 1 {
                        let mut f = faults.clone();
                        f.remove(i);
                        c.push(Scn { kind: Kind::Torn { nkeys: *nkeys, seed: *seed, faults: f } });
                    }
                }
                if *nkeys > 1 {
                    c.push(Scn { kind: Kind::Torn { nkeys: nkeys - 1, seed: *seed, faults: faults.clone() } });
                }
            }
            Kind::WriteRead { names, seed } => {
                for i in 0..names.len() {
                    if names.len() > 1 {
                        let mut n = names.clone();
                        n.remove(i);
                        c.push(Scn { kind: Kind::WriteRead { names: n, seed: *seed } });
                    }
                }
            }
            Kind::LockRoundTrip { sk, password, salt, others } => {
                for i in 0..others.len() {
                    if others.len() > 1 {
                        let mut o = others.clone();
                        o.remove(i);
                        c.push(Scn { kind: Kind::LockRoundTrip { sk: sk.clone(), password: password.clone(), salt: salt.clone(), others: o } });
                    }
                }
            }
            Kind::LockSweep { sk, password, salt, from, to } => {
                if to - from > 1 {
                    let mid = (from + to) / 2;
                    c.push(Scn { kind: Kind::LockSweep { sk: sk.clone(), password: password.clone(), salt: salt.clone(), from: *from, to: mid } });
                    c.push(Scn { kind: Kind::LockSweep { sk: sk.clone(), password: password.clone(), salt: salt.clone(), from: mid, to: *to } });
                }
            }
            Kind::Garbage { len, seed, alphabet } => {
                if *len > 0 {
                    c.push(Scn { kind: Kind::Garbage { len: len / 2, seed: *seed, alphabet: *alphabet } });
                    c.push(Scn { kind: Kind::Garbage { len: len - 1, seed: *seed, alphabet: *alphabet } });
                }
            }
            _ => {}
        }
        c
    }
    fn real_components(&self) -> Vec<&'static str> {
        vec!["src/cli/src/keyring.rs and errors.rs (working tree, compiled into the simulator): Keyring::new/get_key/get_name_from_key/lock_private_key/unlock_private_key/encode_public_key/decode_public_key/serialize_key/valid_key_name, EncodedPk, EncodedSk", "kestrel-crypto (working tree): scrypt, chapoly_encrypt_ietf/decrypt_ietf, sha256", "ct-codecs"]
    }
    fn simulated_components(&self) -> Vec<&'static str> {
        vec!["the keyring file / locked-key string / encoded public key as a durable record with storage faults (bit rot, truncation, torn, dropped, duplicated and reordered lines)", "an independent implementation of the documented formats (reference lock/unlock, reference keyring parser)"]
    }
}

//! Family B2 "failure causes x prior output state": every command that writes an output file,
//! made to fail for each listed cause, with the output path absent or holding known content.
//! Oracle: exit 1, an 'Error:' line, and the output path byte-identical to its prior state (no
//! new file anywhere in the sandbox); when a later chunk fails, exactly the authenticated
//! prefix. Decides C13.

use crate::cli::*;
use crate::engine::*;
use crate::fam::b1::{world, World};
use crate::refmodel::{format as rf, keyring as rk, prims as rp};
use crate::rng::Rng;
use serde::{Deserialize, Serialize};

#[derive(Serialize, Deserialize, Clone, Copy, Debug, PartialEq)]
pub enum Cmd {
    Encrypt,
    Decrypt,
    PassEncrypt,
    PassDecrypt,
    KeyGenerate,
}

#[derive(Serialize, Deserialize, Clone, Copy, Debug, PartialEq)]
pub enum Cause {
    BadArgs,
    MissingInput,
    MissingKeyring,
    NoKeyringSpecified,
    MalformedKeyring,
    UnknownKeyName,
    NoPrivateKey,
    WrongPassword,
    EnvPassUnset,
    InputIsOutput,
    WrongMagic,
    WrongMode,
    CorruptHeaderField(u8),
    TruncatedHeader,
    CorruptFirstChunk,
    TruncatedFirstChunk,
    EmptyInput,
    SmallOrderRecipient,
    /// -o names a file inside a directory that does not exist / names an existing directory
    OutputDirMissing,
    OutputIsDirectory,
    /// -k names a directory
    KeyringIsDirectory,
    EmptyKeyName,
    LongKeyName,
    TabKeyName,
    /// group 2: chunk j >= 1 corrupted / the file cut inside chunk j
    LaterChunkCorrupt(u8),
    LaterChunkTruncated(u8),
    /// bytes appended after the final chunk (the file's last chunk is number j): exit 1; the output
    /// holds the authenticated chunks before the final one, or all of them
    TrailingData(u8),
}

pub const PAIRS: &[(Cmd, Cause)] = &[
    (Cmd::Encrypt, Cause::BadArgs),
    (Cmd::Encrypt, Cause::MissingInput),
    (Cmd::Encrypt, Cause::MissingKeyring),
    (Cmd::Encrypt, Cause::NoKeyringSpecified),
    (Cmd::Encrypt, Cause::MalformedKeyring),
    (Cmd::Encrypt, Cause::UnknownKeyName),
    (Cmd::Encrypt, Cause::NoPrivateKey),
    (Cmd::Encrypt, Cause::WrongPassword),
    (Cmd::Encrypt, Cause::EnvPassUnset),
    (Cmd::Encrypt, Cause::InputIsOutput),
    (Cmd::Encrypt, Cause::SmallOrderRecipient),
    (Cmd::Decrypt, Cause::BadArgs),
    (Cmd::Decrypt, Cause::MissingInput),
    (Cmd::Decrypt, Cause::MissingKeyring),
    (Cmd::Decrypt, Cause::NoKeyringSpecified),
    (Cmd::Decrypt, Cause::MalformedKeyring),
    (Cmd::Decrypt, Cause::UnknownKeyName),
    (Cmd::Decrypt, Cause::NoPrivateKey),
    (Cmd::Decrypt, Cause::WrongPassword),
    (Cmd::Decrypt, Cause::EnvPassUnset),
    (Cmd::Decrypt, Cause::InputIsOutput),
    (Cmd::Decrypt, Cause::WrongMagic),
    (Cmd::Decrypt, Cause::WrongMode),
    (Cmd::Decrypt, Cause::CorruptHeaderField(1)),
    (Cmd::Decrypt, Cause::CorruptHeaderField(2)),
    (Cmd::Decrypt, Cause::CorruptHeaderField(3)),
    (Cmd::Decrypt, Cause::TruncatedHeader),
    (Cmd::Decrypt, Cause::CorruptFirstChunk),
    (Cmd::Decrypt, Cause::TruncatedFirstChunk),
    (Cmd::Decrypt, Cause::EmptyInput),
    (Cmd::Decrypt, Cause::LaterChunkCorrupt(1)),
    (Cmd::Decrypt, Cause::LaterChunkCorrupt(2)),
    (Cmd::Decrypt, Cause::LaterChunkTruncated(1)),
    (Cmd::Decrypt, Cause::LaterChunkTruncated(2)),
    (Cmd::Decrypt, Cause::TrailingData(0)),
    (Cmd::Decrypt, Cause::TrailingData(2)),
    (Cmd::PassDecrypt, Cause::TrailingData(0)),
    (Cmd::PassDecrypt, Cause::TrailingData(2)),
    (Cmd::PassEncrypt, Cause::BadArgs),
    (Cmd::PassEncrypt, Cause::MissingInput),
    (Cmd::PassEncrypt, Cause::EnvPassUnset),
    (Cmd::PassEncrypt, Cause::InputIsOutput),
    (Cmd::PassDecrypt, Cause::BadArgs),
    (Cmd::PassDecrypt, Cause::MissingInput),
    (Cmd::PassDecrypt, Cause::WrongPassword),
    (Cmd::PassDecrypt, Cause::EnvPassUnset),
    (Cmd::PassDecrypt, Cause::InputIsOutput),
    (Cmd::PassDecrypt, Cause::WrongMagic),
    (Cmd::PassDecrypt, Cause::WrongMode),
    (Cmd::PassDecrypt, Cause::CorruptHeaderField(1)),
    (Cmd::PassDecrypt, Cause::TruncatedHeader),
    (Cmd::PassDecrypt, Cause::CorruptFirstChunk),
    (Cmd::PassDecrypt, Cause::TruncatedFirstChunk),
    (Cmd::PassDecrypt, Cause::EmptyInput),
    (Cmd::PassDecrypt, Cause::LaterChunkCorrupt(1)),
    (Cmd::PassDecrypt, Cause::LaterChunkTruncated(1)),
    (Cmd::Encrypt, Cause::OutputDirMissing),
    (Cmd::Encrypt, Cause::OutputIsDirectory),
    (Cmd::Encrypt, Cause::KeyringIsDirectory),
    (Cmd::Decrypt, Cause::OutputDirMissing),
    (Cmd::Decrypt, Cause::OutputIsDirectory),
    (Cmd::Decrypt, Cause::KeyringIsDirectory),
    (Cmd::PassEncrypt, Cause::OutputDirMissing),
    (Cmd::PassDecrypt, Cause::OutputIsDirectory),
    (Cmd::KeyGenerate, Cause::OutputDirMissing),
    (Cmd::KeyGenerate, Cause::OutputIsDirectory),
    (Cmd::KeyGenerate, Cause::BadArgs),
    (Cmd::KeyGenerate, Cause::EnvPassUnset),
    (Cmd::KeyGenerate, Cause::EmptyKeyName),
    (Cmd::KeyGenerate, Cause::LongKeyName),
    (Cmd::KeyGenerate, Cause::TabKeyName),
];

#[derive(Serialize, Deserialize, Clone, Debug)]
pub struct Scn {
    pub cmd: Cmd,
    pub cause: Cause,
    pub prior_present: bool,
    pub seed: u64,
    /// which of several ways to realise the cause (bad-argument variant, which name is unknown ...)
    pub variant: u8,
    pub out_via_stdout_redirect: bool,
}

pub struct B2;

const CHUNK: usize = 65536;

fn small_order_encoded() -> String {
    rk::encode_pk(&crate::fam::a4::small_order(1, false))
}

impl Family for B2 {
    type Scenario = Scn;
    fn name(&self) -> &'static str {
        "b2"
    }
    fn properties(&self) -> &'static [&'static str] {
        &["C13"]
    }
    fn budget(&self, tier: Tier, _p: &str) -> u64 {
        // the full (command, cause) x prior-state product once, then seeded variants
        (PAIRS.len() as u64 * 2)
            * match tier {
                Tier::Quick => 2,
                Tier::Thorough => 40,
            }
    }
    fn generate(&self, rng: &mut Rng, _tier: Tier, idx: u64) -> Scn {
        let k = (idx as usize) % (PAIRS.len() * 2);
        let (cmd, cause) = PAIRS[k / 2];
        Scn { cmd, cause, prior_present: k % 2 == 1, seed: rng.next_u64(), variant: rng.below(8) as u8, out_via_stdout_redirect: false }
    }
    fn execute(&self, s: &Scn) -> RunOut {
        let mut out = RunOut::default();
        out.props = vec!["C13"];
        let w: World = world(s.seed % 16); // small pool of key worlds: the reference scrypt cache hits
        let pubs: Vec<[u8; 32]> = w.sks.iter().map(rp::x25519_base).collect();
        let mut r = Rng::new(s.seed ^ 0xB2);
        let sb = Sandbox::new("b2");
        let later = matches!(s.cause, Cause::LaterChunkCorrupt(_) | Cause::LaterChunkTruncated(_) | Cause::TrailingData(2));
        // plaintext: three chunks when a later chunk must fail, small otherwise
        // for later-chunk failures the plaintext is sometimes all zeros or chunk-header-like (sparse
        // files, disk images): what is written must not depend on its content
        let pt = if later {
            crate::ops::Plain { len: 2 * CHUNK + 1000, fill_seed: r.next_u64() }.bytes()
        } else { { let n = 200 + r.usize_below(500); r.bytes(n) } };
        let (e, payload) = (r.arr32(), r.arr32());
        let fsalt = Rng::new(s.seed % 16).arr32();
        let key_file = |pt: &[u8]| {
            rf::write_key_file(
                &rf::KeyParams { s_priv: &w.sks[0], s_pub_claimed: &pubs[0], e_priv: &e, e_pub: &rp::x25519_base(&e), recipient: &pubs[1], payload_key: &payload },
                pt,
                &crate::gen::full_chunking(pt.len(), CHUNK),
            )
        };
        let pass_file = |pt: &[u8]| rf::write_pass_file(&crate::ops::ref_scrypt_cached(w.file_pw.as_bytes(), &fsalt), &fsalt, pt, &crate::gen::full_chunking(pt.len(), CHUNK));
        let mut input: Vec<u8> = match s.cmd {
            Cmd::Encrypt | Cmd::PassEncrypt | Cmd::KeyGenerate => pt.clone(),
            Cmd::Decrypt => key_file(&pt),
            Cmd::PassDecrypt => pass_file(&pt),
        };
        let hl = if s.cmd == Cmd::Decrypt { 132 } else { 36 };
        let mut expected_prefix: Option<Vec<u8>> = None;
        let mut alt_prefix: Option<Vec<u8>> = None;
        match s.cause {
            Cause::WrongMagic => input[r.usize_below(4)] ^= 1 << r.below(8),
            Cause::WrongMode => input = if s.cmd == Cmd::Decrypt { pass_file(&pt) } else { key_file(&pt) },
            Cause::CorruptHeaderField(f) => {
                let (a, b) = match (s.cmd, f) {
                    (Cmd::Decrypt, 1) => (4, 36),
                    (Cmd::Decrypt, 2) => (36, 84),
                    (Cmd::Decrypt, _) => (84, 132),
                    _ => (4, 36),
                };
                input[a + r.usize_below(b - a)] ^= 1 << r.below(8);
            }
            Cause::TruncatedHeader => input.truncate(r.usize_below(hl)),
            Cause::CorruptFirstChunk => {
                // anywhere in the first record except the advisory counter field
                let off = hl + 8 + r.usize_below(input.len() - hl - 8);
                input[off] ^= 1 << r.below(8);
            }
            Cause::TruncatedFirstChunk => input.truncate(hl + r.usize_below(input.len() - hl)),
            Cause::EmptyInput => input.clear(),
            Cause::LaterChunkCorrupt(j) => {
                let start = hl + j as usize * (CHUNK + 32);
                let rec_len = (input.len() - start).min(CHUNK + 32);
                let off = start + 8 + r.usize_below(rec_len - 8);
                input[off] ^= 1 << r.below(8);
                expected_prefix = Some(pt[..j as usize * CHUNK].to_vec());
            }
            Cause::TrailingData(j) => {
                let extra = 1 + r.usize_below(20);
                input.extend_from_slice(&crate::rng::fill(extra, s.seed ^ 0x7a11));
                // everything is authentic; whether the final chunk is released before the trailing
                // bytes are noticed is the implementation's business
                if j == 0 {
                    alt_prefix = Some(pt.clone());
                } else {
                    expected_prefix = Some(pt[..j as usize * CHUNK].to_vec());
                    alt_prefix = Some(pt.clone());
                }
            }
            Cause::LaterChunkTruncated(j) => {
                let start = hl + j as usize * (CHUNK + 32);
                let rec_len = (input.len() - start).min(CHUNK + 32);
                input.truncate(start + r.usize_below(rec_len));
                expected_prefix = Some(pt[..j as usize * CHUNK].to_vec());
            }
            _ => {}
        }
        // keyring
        let spec = |i: usize, with_priv: bool| KeySpec { name: w.names[i].clone(), sk: w.sks[i], password: if with_priv { Some(w.pws[i].clone()) } else { None }, salt: w.salts[i] };
        let mut kr = match s.cmd {
            Cmd::Encrypt => keyring_text(&[spec(0, s.cause != Cause::NoPrivateKey), spec(1, false), spec(2, false)]),
            _ => keyring_text(&[spec(1, s.cause != Cause::NoPrivateKey), spec(0, false), spec(2, false)]),
        };
        if s.cause == Cause::SmallOrderRecipient {
            kr.push_str(&format!("\n[Key]\nName = lowkey-0001\nPublicKey = {}\n", small_order_encoded()));
        }
        if s.cause == Cause::MalformedKeyring {
            kr = match s.variant % 5 {
                0 => kr.replace("[Key]", "[Kee]"),
                1 => format!("{}Name = dup\n", kr),
                2 => kr.replacen("PublicKey = ", "PublicKey = !!", 1),
                3 => "\u{0}\u{1}garbage".to_string(),
                _ => format!("{}\n[Key]\nName = {}\nPublicKey = {}\n", kr, w.names[2], rk::encode_pk(&pubs[0])),
            };
        }
        let out_name = "output.bin";
        // sometimes longer than anything this run will write: a missing truncation then shows
        let prior = {
            let n = if s.variant % 2 == 0 { 64 + r.usize_below(100) } else { 150_000 + r.usize_below(100_000) };
            r.bytes(n)
        };
        if s.cause != Cause::MissingInput {
            sb.write("input.bin", &input);
        }
        if s.cause != Cause::MissingKeyring {
            sb.write("keyring.txt", kr.as_bytes());
        }
        let in_is_out = s.cause == Cause::InputIsOutput;
        if s.prior_present && !in_is_out {
            sb.write(out_name, &prior);
        }
        // argv
        let mut args: Vec<String> = vec![];
        let unknown_to = s.variant % 2 == 0 || s.cmd != Cmd::Encrypt;
        let to = if s.cause == Cause::UnknownKeyName && unknown_to {
            "nobody-at-all".to_string()
        } else if s.cause == Cause::SmallOrderRecipient {
            "lowkey-0001".to_string()
        } else {
            w.names[1].clone()
        };
        let from = if s.cause == Cause::UnknownKeyName && !unknown_to { "nobody-at-all".to_string() } else { w.names[0].clone() };
        let out_arg = match s.cause {
            _ if in_is_out => "input.bin",
            Cause::OutputDirMissing => "no-such-dir/output.bin",
            Cause::OutputIsDirectory => match s.variant % 5 {
                0 => "a-directory",
                1 => ".",
                2 => "..",
                3 => "a-directory/..",
                _ => "a-directory/",
            },
            _ => out_name,
        };
        if s.cause == Cause::OutputIsDirectory {
            let _ = std::fs::create_dir(sb.dir.join("a-directory"));
        }
        if s.cause == Cause::KeyringIsDirectory {
            let _ = std::fs::remove_file(sb.dir.join("keyring.txt"));
            let _ = std::fs::create_dir(sb.dir.join("keyring.txt"));
        }
        match s.cmd {
            Cmd::Encrypt => args.extend(["encrypt".into(), "input.bin".into(), "-t".into(), to, "-f".into(), from, "-o".into(), out_arg.into()]),
            Cmd::Decrypt => args.extend(["decrypt".into(), "input.bin".into(), "-t".into(), to, "-o".into(), out_arg.into()]),
            Cmd::PassEncrypt => args.extend(["password".into(), "encrypt".into(), "input.bin".into(), "-o".into(), out_arg.into()]),
            Cmd::PassDecrypt => args.extend(["password".into(), "decrypt".into(), "input.bin".into(), "-o".into(), out_arg.into()]),
            Cmd::KeyGenerate => args.extend(["key".into(), "generate".into(), "-o".into(), out_arg.into()]),
        }
        let key_cmd = matches!(s.cmd, Cmd::Encrypt | Cmd::Decrypt);
        if key_cmd && s.cause != Cause::NoKeyringSpecified {
            args.extend(["-k".into(), "keyring.txt".into()]);
        }
        args.push("--env-pass".into());
        if s.cause == Cause::BadArgs {
            // `key generate` ignores free arguments (that is not a failure), so no variant 1 there
            let v = if s.cmd == Cmd::KeyGenerate && s.variant % 5 == 1 { 0 } else { s.variant % 5 };
            match v {
                0 => args.push("--no-such-option".into()),
                1 => args.push("extra-free-argument".into()),
                2 => {
                    // drop a required option (or, where none is required, give -o twice)
                    if let Some(p) = args.iter().position(|a| a == "-t") {
                        args.drain(p..p + 2);
                    } else {
                        args.extend(["-o".into(), "second.bin".into()]);
                    }
                }
                3 => args.push("-o".into()), // option without its argument
                _ => args.insert(1, "--bogus=1".into()),
            }
        }
        let refs: Vec<&str> = args.iter().map(|a| a.as_str()).collect();
        let mut inv = Invocation::new(&refs);
        inv.entropy_seed = Some(s.seed ^ 0x13);
        let right_pw = match s.cmd {
            Cmd::Encrypt => w.pws[0].clone(),
            Cmd::Decrypt => w.pws[1].clone(),
            _ => w.file_pw.clone(),
        };
        match s.cause {
            Cause::EnvPassUnset => {}
            Cause::WrongPassword => inv = inv.env("KESTREL_PASSWORD", &format!("not-{}", right_pw)),
            _ => inv = inv.env("KESTREL_PASSWORD", &right_pw),
        }
        if s.cmd == Cmd::KeyGenerate {
            let name = match s.cause {
                Cause::EmptyKeyName => if s.variant % 2 == 0 { "\n".to_string() } else { "   \n".to_string() },
                Cause::LongKeyName => format!("{}\n", "n".repeat(129 + (s.variant as usize) * 7)),
                Cause::TabKeyName => "tab\tname\n".to_string(),
                _ => "newkey-00001\n".to_string(),
            };
            inv.stdin = Stdin::Pipe(name.into_bytes());
        }
        let before = sb.listing();
        let fin = run(&sb, &inv);
        let after = sb.listing();
        let stderr = fin.stderr_text();
        let what = format!("{:?} / {:?} / prior {}", s.cmd, s.cause, if s.prior_present { "present" } else { "absent" });
        match fin.status {
            Status::Exit(1) => {
                if !fin.has_error_line() {
                    out.violations.push(viol("C13", "no_error_line", format!("{}: exit 1 without an 'Error:' line: {}", what, stderr)));
                }
            }
            ref other => out.violations.push(viol("C13", "failure_not_reported", format!("{}: expected exit 1, got {:?}; stderr: {}", what, other, stderr.chars().take(300).collect::<String>()))),
        }
        if fin.panicked() {
            out.violations.push(viol("C13", "panicked", format!("{}: {}", what, stderr.chars().take(300).collect::<String>())));
        }
        match &expected_prefix {
            None if alt_prefix.is_some() => {
                // single-chunk file with trailing data: untouched, or exactly the whole plaintext
                let now = sb.read(out_name);
                let untouched = before == after;
                if !(untouched || now.as_deref() == alt_prefix.as_deref()) {
                    out.violations.push(viol("C13", "trailing_data_wrong_output", format!("{}: output path holds {:?} bytes: neither untouched nor the authenticated plaintext", what, now.map(|v| v.len()))));
                }
            }
            None => {
                // group 1: nothing authenticated exists: the sandbox is byte-identical to before
                if before != after {
                    let now = sb.read(out_arg);
                    out.violations.push(viol("C13", "output_path_touched", format!("{}: the failed command changed the directory: output path now {}, before {}", what, now.map(|v| format!("{} bytes", v.len())).unwrap_or("absent".into()), if s.prior_present || in_is_out { "present with known content" } else { "absent" })));
                }
            }
            Some(prefix) => {
                // group 2: exactly the authenticated prefix
                let now = sb.read(out_name).unwrap_or_default();
                if now != *prefix && Some(&now) != alt_prefix.as_ref() {
                    out.violations.push(viol("C13", "later_failure_wrong_prefix", format!("{}: output holds {} bytes, the authenticated prefix has {}", what, now.len(), prefix.len())));
                }
            }
        }
        out.trace_hash = fin.digest() ^ crate::rng::fnv64(format!("{:?}", after).as_bytes());
        out.steps = 1;
        out.count(&format!("fault.cause.{}", format!("{:?}", s.cause).split('(').next().unwrap()), 1);
        out.signature = format!("b2|{:?}|{:?}|{}|v{}", s.cmd, s.cause, s.prior_present, s.variant % 5);
        out.nontrivial = true;
        out
    }
    fn shrink(&self, _s: &Scn) -> Vec<Scn> {
        vec![]
    }
    fn real_components(&self) -> Vec<&'static str> {
        vec!["the kestrel binary built from the working tree (src/cli and src/crypto), shipped release profile", "the kernel's file system inside the sandbox directory"]
    }
    fn simulated_components(&self) -> Vec<&'static str> {
        vec!["the invoking shell (argv, environment, stdin), prior state of the output path", "storage faults on the input file and the keyring", "absent controlling terminal", "seeded OS entropy"]
    }
}

//! Family A1 "stream round trip": encrypt through scripted seams, compare with the executable
//! specification, decrypt through scripted seams, mixed versions, reverse direction
//! (reference-written files with arbitrary legal chunkings). No I/O faults here (those are A2).
//! Decides C01, C02, C06, C08; C07's online seal monitor rides along.

use crate::engine::*;
use crate::fam::a2::caps_class;
use crate::gen::*;
use crate::hx::{to_hex, Hx};
use crate::ops::*;
use crate::refmodel::{b64, keyring as rk};
use crate::rng::Rng;
use crate::seams::*;
use serde::{Deserialize, Serialize};

#[derive(Serialize, Deserialize, Clone, Debug)]
pub struct Scn {
    pub mode: Mode,
    pub plain: Plain,
    pub enc_rs: ReadScript,
    pub enc_ws: WriteScript,
    pub dec_rs: ReadScript,
    pub dec_ws: WriteScript,
    pub entropy_tag: u64,
    /// other passwords (pass mode) / other keys (hook mode) that must be rejected
    pub wrong: Vec<Hx>,
    /// reverse direction: chunking of a reference-written file kestrel must decrypt
    pub rev_chunking: Vec<usize>,
    pub rev_rs: ReadScript,
}

/// Two instances: the general mix (`a1`) and password mode only (`a1p`, scrypt-bound, used by C02).
pub struct A1 {
    pub pass_only: bool,
}

fn first_diff(a: &[u8], b: &[u8]) -> usize {
    a.iter().zip(b.iter()).position(|(x, y)| x != y).unwrap_or(a.len().min(b.len()))
}

/// Two byte strings are the same HMAC-SHA-256 key iff they agree after the RFC 2104 key
/// preparation (hash if longer than the 64-byte block, then zero-pad to the block).
pub fn hmac_equivalent(a: &[u8], b: &[u8]) -> bool {
    fn prep(k: &[u8]) -> [u8; 64] {
        let mut o = [0u8; 64];
        if k.len() > 64 {
            o[..32].copy_from_slice(&crate::refmodel::prims::sha256(k));
        } else {
            o[..k.len()].copy_from_slice(k);
        }
        o
    }
    prep(a) == prep(b)
}

fn contains(hay: &[u8], needle: &[u8]) -> bool {
    !needle.is_empty() && hay.windows(needle.len()).any(|w| w == needle)
}

impl A1 {
    fn props_for(mode: &Mode) -> (&'static str, bool) {
        // which round-trip property this mode speaks for
        match mode {
            Mode::Key { .. } => ("C01", true),
            Mode::Pass { .. } => ("C02", true),
            Mode::Hook { aad, .. } => (if aad.0.is_empty() { "C01" } else { "C02" }, false),
        }
    }
}

impl Family for A1 {
    type Scenario = Scn;
    fn name(&self) -> &'static str {
        if self.pass_only {
            "a1p"
        } else {
            "a1"
        }
    }
    fn properties(&self) -> &'static [&'static str] {
        if self.pass_only {
            &["C02"]
        } else {
            &["C01", "C02", "C06", "C08", "C07"]
        }
    }
    fn budget(&self, tier: Tier, p: &str) -> u64 {
        if self.pass_only {
            return match tier {
                Tier::Quick => 220,
                Tier::Thorough => 6000,
            };
        }
        let q = match p {
            "C07" => 3000,
            _ => 12000,
        };
        q * match tier {
            Tier::Quick => 1,
            Tier::Thorough => 25,
        }
    }
    fn generate(&self, rng: &mut Rng, tier: Tier, _idx: u64) -> Scn {
        let m = rng.below(1000);
        // pass mode is scrypt-bound (3+ evaluations per run): sampled thinly
        let pass_share = if tier == Tier::Quick { 8 } else { 12 };
        let mode = if self.pass_only {
            gen_pass_mode(rng)
        } else if m < 600 {
            let pa = rng.chance(1, 2);
            gen_hook_mode(rng, pa)
        } else if m < 1000 - pass_share {
            let fx = rng.chance(2, 3);
            let mut m = gen_key_mode(rng, fx);
            // a caller that hands over only half of the ephemeral pair
            if let Mode::Key { omit_e_pub, e_priv: Some(_), .. } = &mut m {
                *omit_e_pub = rng.chance(1, 6);
            }
            // a file encrypted to oneself: sender key == recipient key
            if rng.chance(1, 10) {
                if let Mode::Key { s_priv, r_priv, .. } = &mut m {
                    *r_priv = s_priv.clone();
                }
            }
            m
        } else {
            gen_pass_mode(rng)
        };
        let cs = mode.cs();
        // streams of several hundred chunks (counters past one byte): tiny chunk size, full reads
        let many_chunks = matches!(&mode, Mode::Hook { cs, .. } if *cs <= 3) && rng.chance(1, 8);
        let plain = if many_chunks {
            Plain { len: cs * rng.range(250, 700) as usize + rng.usize_below(cs), fill_seed: rng.next_u64() }
        } else if cs == 65536 {
            match rng.below(12) {
                0 => gen_plain(rng, cs, 2),
                1 => Plain { len: cs * rng.range(1, 3) as usize + [0usize, 1].get(rng.usize_below(2)).copied().unwrap(), fill_seed: rng.next_u64() },
                _ => Plain { len: rng.range(0, 400) as usize, fill_seed: rng.next_u64() },
            }
        } else {
            gen_plain(rng, cs, 4)
        };
        let bound = |caps: &mut Vec<usize>, len: usize| {
            let floor = len / 80;
            if floor > 1 {
                for c in caps.iter_mut() {
                    if *c < floor {
                        *c = floor + (*c % 3);
                    }
                }
            }
        };
        let (mut a, _) = gen_caps(rng, cs);
        let (mut b, _) = gen_caps(rng, cs);
        let (mut c, _) = gen_caps(rng, cs);
        let (mut d, _) = gen_caps(rng, cs);
        let (mut e, _) = gen_caps(rng, cs);
        for v in [&mut a, &mut b, &mut c, &mut d, &mut e] {
            bound(v, plain.len + 200);
        }
        if many_chunks {
            // full reads on the encrypt side: one chunk per chunk-size bytes
            a.clear();
        }
        let wrong = match &mode {
            Mode::Pass { password, .. } => {
                // one wrong password per run in quick (each costs one scrypt)
                let mut w = Vec::new();
                let n = if tier == Tier::Quick { 1 } else { 2 };
                for _ in 0..n {
                    let p = &password.0;
                    let cand: Vec<u8> = match rng.below(8) {
                        // a long password cut to a "convenient" buffer size: must still be a different password
                        6 if p.len() > 128 => p[..128].to_vec(),
                        7 if p.len() > 64 => {
                            let mut q = p[..p.len() - 8].to_vec();
                            q.extend_from_slice(b"DIFFERENT-TAIL");
                            q
                        }
                        0 if !p.is_empty() => p[..p.len() - 1].to_vec(),
                        1 => {
                            let mut q = p.clone();
                            q.push(b'x');
                            q
                        }
                        2 if !p.is_empty() => {
                            let mut q = p.clone();
                            let i = rng.usize_below(q.len());
                            q[i] ^= 1 << rng.below(8);
                            q
                        }
                        3 if !p.is_empty() => vec![],
                        4 => {
                            // HMAC-equivalent key: zero-extended (|p| < 64) or pre-hashed (|p| > 64)
                            if p.len() > 64 {
                                crate::refmodel::prims::sha256(p).to_vec()
                            } else {
                                let mut q = p.clone();
                                q.push(0);
                                q
                            }
                        }
                        _ => gen_password(rng),
                    };
                    if cand != *p {
                        w.push(Hx(cand));
                    }
                }
                // a password that ends with a line terminator or a blank, and the same password without
                // it, are two passwords (no draw: derived from the password)
                let trimmed: Vec<u8> = {
                    let mut q = password.0.clone();
                    while matches!(q.last(), Some(b'\n') | Some(b'\r') | Some(b' ')) {
                        q.pop();
                    }
                    q
                };
                let near = if trimmed != password.0 {
                    Some(trimmed)
                } else if crate::rng::fnv64(&password.0) % 4 == 1 {
                    let mut q = password.0.clone();
                    q.extend_from_slice(if crate::rng::fnv64(&password.0) % 8 == 1 { b"\n" } else { b"\r\n" });
                    Some(q)
                } else {
                    None
                };
                if let Some(q) = near {
                    if w.is_empty() {
                        w.push(Hx(q));
                    } else {
                        w[0] = Hx(q);
                    }
                }
                w
            }
            Mode::Hook { key, .. } => {
                let mut k = key.0.clone();
                let i = rng.usize_below(32);
                k[i] ^= 1 << rng.below(8);
                vec![Hx(k)]
            }
            _ => vec![],
        };
        let mut rev_chunking = gen_chunking(rng, plain.len, cs);
        if rev_chunking.len() > 400 {
            rev_chunking = full_chunking(plain.len, cs);
        }
        Scn {
            mode,
            plain,
            enc_rs: ReadScript { caps: a, faults: vec![] },
            enc_ws: WriteScript { caps: b, faults: vec![], flush_faults: vec![] },
            dec_rs: ReadScript { caps: c, faults: vec![] },
            dec_ws: WriteScript { caps: d, faults: vec![], flush_faults: vec![] },
            entropy_tag: rng.next_u64(),
            wrong,
            rev_chunking,
            rev_rs: ReadScript { caps: e, faults: vec![] },
        }
    }

    fn execute(&self, s: &Scn) -> RunOut {
        let mut out = RunOut::default();
        let (rt_prop, public_api) = A1::props_for(&s.mode);
        out.props = vec![rt_prop, "C06", "C08", "C07"];
        let pt = s.plain.bytes();
        let cs = s.mode.cs();
        let trace = Trace::new(20000 + 64 * (pt.len() as u64 + 400), true);
        let ent = install_entropy(s.entropy_tag, trace.clone());
        let seal = install_seal_observer(trace.clone());
        let enc = run_encrypt(&s.mode, &pt, &s.enc_rs, &s.enc_ws, &trace);
        remove_entropy();
        let read_sizes: Vec<usize> = trace.borrow().read_sizes.iter().copied().filter(|n| *n > 0).collect();
        let ct = enc.sink.clone();
        let mut scrypt = |p: &[u8], salt: &[u8; 32]| ref_scrypt_cached(p, salt);
        if !enc.outcome.is_ok() {
            out.violations.push(viol(rt_prop, "encrypt_failed", format!("fault-free encryption failed: {:?}", enc.outcome)));
        } else {
            // ---- C06: byte-for-byte conformance given the recorded read sizes
            let sender_pk = match &s.mode {
                Mode::Key { s_priv, .. } => Some(pubkey_of(&s_priv.a32())),
                _ => None,
            };
            let consumed: usize = read_sizes.iter().sum();
            if consumed != pt.len() {
                // success reported although the source was not read to its end: the file cannot hold P
                out.violations.push(viol(rt_prop, "plaintext_not_consumed", format!("encryption returned Ok after reading {} of {} plaintext bytes (read sizes {:?}..)", consumed, pt.len(), &read_sizes[..read_sizes.len().min(6)])));
                out.violations.push(viol("C06", "plaintext_not_consumed", format!("the file covers {} of {} plaintext bytes for the recorded read sizes", consumed, pt.len())));
            }
            match if consumed == pt.len() { reference_file(&s.mode, &pt, &read_sizes, &mut scrypt) } else { reference_file(&s.mode, &pt[..consumed], &read_sizes, &mut scrypt) } {
                Some(rfile) => {
                    out.count("probe.c06_byte_compare", 1);
                    if rfile != ct {
                        out.violations.push(viol("C06", "bytes_differ", format!("output ({} bytes) differs from the specification's file ({} bytes) at offset {} for read sizes {:?}", ct.len(), rfile.len(), first_diff(&rfile, &ct), &read_sizes[..read_sizes.len().min(8)])));
                    }
                }
                None => {
                    // implementation-chosen randomness: the reference reader validates the file
                    out.count("probe.c06_reference_reader", 1);
                    let (v, snd) = reference_verdict(&s.mode, &ct, &mut scrypt);
                    let counters_ok = v.recs.iter().enumerate().all(|(i, r)| r.counter == i as u64);
                    let sizes_ok = v.recs.iter().map(|r| r.pt.len()).filter(|n| *n > 0).collect::<Vec<_>>() == read_sizes;
                    if !v.accepted() || v.plaintext() != pt || snd != sender_pk || !counters_ok || !sizes_ok {
                        out.violations.push(viol("C06", "reference_reader_rejects", format!("reference reader: accepted={} reject={:?} plaintext_ok={} sender_ok={} counters_ok={} chunk_sizes_ok={}", v.accepted(), v.reject, v.plaintext() == pt, snd == sender_pk, counters_ok, sizes_ok)));
                    }
                }
            }
            // ---- C08: size formula from the read log; no identities in the clear
            let n_chunks = read_sizes.len().max(1);
            let want = s.mode.header_len() + 32 * n_chunks + pt.len();
            if ct.len() != want {
                out.violations.push(viol("C08", "size", format!("file is {} bytes; {} header + 32*{} chunks + {} plaintext = {}", ct.len(), s.mode.header_len(), n_chunks, pt.len(), want)));
            }
            if let Mode::Key { s_priv, r_priv, .. } = &s.mode {
                for (who, sk) in [("sender", s_priv), ("recipient", r_priv)] {
                    let pk = pubkey_of(&sk.a32());
                    let enc36 = rk::encode_pk(&pk);
                    let b64raw = b64::encode(&pk);
                    let b64raw = b64raw.trim_end_matches('=');
                    if contains(&ct, &pk) || contains(&ct, enc36.as_bytes()) || contains(&ct, b64raw.as_bytes()) || contains(&ct, to_hex(&pk).as_bytes()) {
                        out.violations.push(viol("C08", "identity_in_clear", format!("the {}'s public key appears in the file in raw, base64, keyring or hex form", who)));
                    }
                }
                // cleartext structure: magic, 32-byte ephemeral key; with fixed randomness it is exactly e_pub
                if ct.len() >= 36 && ct[..4] != [0x65, 0x67, 0x6b, 0x10] {
                    out.violations.push(viol("C08", "magic", "key-mode file does not start with 65 67 6B 10".into()));
                }
            }
            if let Mode::Pass { password, salt } = &s.mode {
                if ct.len() >= 36 && (ct[..4] != [0x65, 0x67, 0x6b, 0x20] || ct[4..36] != salt.0[..]) {
                    out.violations.push(viol("C08", "magic", "password-mode file does not start with 65 67 6B 20 || salt".into()));
                }
                if password.0.len() >= 6 && contains(&ct, &password.0) {
                    out.violations.push(viol("C08", "identity_in_clear", "the password appears in the file".into()));
                }
            }
        }
        let _ = ent;
        // ---- round trip through scripted seams (C01 / C02)
        if enc.outcome.is_ok() {
            let dec = run_decrypt(&s.mode, &ct, &s.dec_rs, &s.dec_ws, &trace, None, None);
            match &dec.outcome {
                Outcome::Ok(sender) => {
                    if dec.sink != pt {
                        out.violations.push(viol(rt_prop, "roundtrip_plaintext", format!("decrypt(encrypt(P)) wrote {} bytes, P has {}; first difference at {}", dec.sink.len(), pt.len(), first_diff(&dec.sink, &pt))));
                    }
                    if let Mode::Key { s_priv, .. } = &s.mode {
                        let want = pubkey_of(&s_priv.a32());
                        if sender.as_deref() != Some(&want[..]) {
                            out.violations.push(viol("C01", "roundtrip_sender", format!("reported sender {:?} is not the sender's public key {}", sender.as_ref().map(|v| to_hex(v)), to_hex(&want))));
                        }
                    }
                }
                o => out.violations.push(viol(rt_prop, "roundtrip_failed", format!("decryption of the produced file failed: {:?}", o))),
            }
            // ---- C02: every other password is rejected and releases nothing
            for w in &s.wrong {
                let d = match &s.mode {
                    Mode::Pass { .. } => run_decrypt(&s.mode, &ct, &s.dec_rs, &s.dec_ws, &trace, None, Some(&w.0)),
                    Mode::Hook { aad, cs, .. } => run_decrypt(&Mode::Hook { key: w.clone(), aad: aad.clone(), cs: *cs }, &ct, &s.dec_rs, &s.dec_ws, &trace, None, None),
                    _ => continue,
                };
                out.count("probe.wrong_password_tried", 1);
                let p = if matches!(s.mode, Mode::Pass { .. }) { "C02" } else { rt_prop };
                if d.outcome.is_ok() {
                    let equiv = match &s.mode {
                        Mode::Pass { password, .. } => hmac_equivalent(&password.0, &w.0),
                        _ => false,
                    };
                    if equiv {
                        out.count("probe.hmac_equivalent_password_accepted", 1);
                        out.violations.push(viol(p, "wrong_secret_accepted_hmac_equivalent", format!("decryption under the different but HMAC-equivalent password {} succeeded (password {})", to_hex(&w.0), match &s.mode { Mode::Pass { password, .. } => to_hex(&password.0), _ => String::new() })));
                    } else {
                        out.violations.push(viol(p, "wrong_secret_accepted", format!("decryption under a different password/key {} succeeded", to_hex(&w.0))));
                    }
                } else if d.writes > 0 || !d.sink.is_empty() {
                    out.violations.push(viol(p, "wrong_secret_released", format!("decryption under a different password/key failed but made {} write calls ({} bytes)", d.writes, d.sink.len())));
                }
                if let Outcome::Panic(m) = &d.outcome {
                    out.violations.push(viol(p, "wrong_secret_panic", m.clone()));
                }
            }
            // ---- and the right secret still works after the wrong ones were tried (no state may
            // carry over from a rejected attempt to the next call)
            if !s.wrong.is_empty() && !matches!(s.mode, Mode::Key { .. }) {
                let d = run_decrypt(&s.mode, &ct, &s.dec_rs, &s.dec_ws, &trace, None, None);
                if !(d.outcome.is_ok() && d.sink == pt) {
                    out.violations.push(viol(rt_prop, "right_secret_rejected_after_wrong_one", format!("after a rejected attempt with another password/key the correct one no longer decrypts: {:?}", d.outcome)));
                }
            }
            // ---- a second file on the same thread from ANOTHER sender to the same recipient, and from the
            // same sender to ANOTHER recipient (nothing learnt in one handshake may leak into the next)
            if let (Mode::Key { s_priv, r_priv, .. }, true) = (&s.mode, public_api) {
                let mut kr = Rng::new(s.entropy_tag ^ 0x2e2e);
                let (s2, r2) = (Hx(kr.bytes(32)), Hx(kr.bytes(32)));
                for (sp, rp_) in [(&s2, r_priv), (s_priv, &r2)] {
                    let m2 = Mode::Key { s_priv: sp.clone(), r_priv: rp_.clone(), e_priv: None, payload: None, omit_e_pub: false };
                    let _e = install_entropy(s.entropy_tag ^ 0x77aa, trace.clone());
                    let e2 = run_encrypt(&m2, &pt, &ReadScript::default(), &WriteScript::default(), &trace);
                    remove_entropy();
                    let d2 = run_decrypt(&m2, &e2.sink, &ReadScript::default(), &WriteScript::default(), &trace, None, None);
                    let want = pubkey_of(&sp.a32());
                    let ok = e2.outcome.is_ok() && matches!(&d2.outcome, Outcome::Ok(Some(snd)) if snd[..] == want[..]) && d2.sink == pt;
                    if !ok {
                        out.violations.push(viol("C01", "second_pair_on_same_thread", format!("after one round trip, a file between another key pair ({} the {}) does not round-trip on the same thread: enc {:?} dec {:?}", if sp == s_priv { "same sender, other recipient" } else { "other sender, same recipient" }, "first pair's counterpart", e2.outcome.class(), d2.outcome)));
                    }
                }
                out.count("probe.second_pair_round_trips", 2);
            }
            // ---- mixed versions (C06): the pinned release reads what the working tree writes
            if let (Mode::Key { r_priv, s_priv, .. }, true) = (&s.mode, public_api) {
                match crate::selftest::pinned_key_decrypt(&r_priv.a32(), &ct) {
                    Some((p, snd)) => {
                        if p != pt || snd != pubkey_of(&s_priv.a32()) {
                            out.violations.push(viol("C06", "pinned_reads_different", "the pinned release decrypts the produced file to a different plaintext or sender".into()));
                        }
                    }
                    None => out.violations.push(viol("C06", "pinned_rejects", "the pinned release rejects the file the working tree produced".into())),
                }
                out.count("probe.c06_pinned_reader", 1);
            }
        }
        // ---- non-canonical public-key encodings (C06, C01): RFC 7748 masks bit 255 of a u-coordinate only
        // inside X25519; Noise mixes the key bytes into the handshake hash exactly as given, so a key
        // presented with that bit set gives another file than its canonical twin, and both are legal
        if let (Mode::Key { s_priv, r_priv, e_priv: Some(e), payload: Some(p), omit_e_pub: false }, true) = (&s.mode, public_api) {
            if s.entropy_tag % 4 == 0 && pt.len() <= 200_000 {
                use kestrel_crypto::{AsymFileFormat, PayloadKey, PrivateKey, PublicKey};
                let which = (s.entropy_tag >> 2) % 3;
                // an ephemeral key and a payload key of their own: the main round trip has used e and p, and
                // the same ephemeral key with another message would be a (harness-made) nonce reuse
                let (e, p) = (&Hx(crate::refmodel::prims::sha256(&e.0).to_vec()), &Hx(crate::refmodel::prims::sha256(&p.0).to_vec()));
                let mut spk_b = pubkey_of(&s_priv.a32());
                let mut rpk_b = pubkey_of(&r_priv.a32());
                if which != 0 {
                    spk_b[31] |= 0x80;
                }
                if which != 1 {
                    rpk_b[31] |= 0x80;
                }
                let want = crate::refmodel::format::write_key_file(
                    &crate::refmodel::format::KeyParams { s_priv: &s_priv.a32(), s_pub_claimed: &spk_b, e_priv: &e.a32(), e_pub: &pubkey_of(&e.a32()), recipient: &rpk_b, payload_key: &p.a32() },
                    &pt,
                    &full_chunking(pt.len(), 65536),
                );
                let (sk, ek, rk_) = (PrivateKey::try_from(&s_priv.0[..]).unwrap(), PrivateKey::try_from(&e.0[..]).unwrap(), PrivateKey::try_from(&r_priv.0[..]).unwrap());
                let (spk, rpk, epk) = (PublicKey::try_from(&spk_b[..]).unwrap(), PublicKey::try_from(&rpk_b[..]).unwrap(), PublicKey::try_from(&pubkey_of(&e.a32())[..]).unwrap());
                let pk = PayloadKey::new(&p.0);
                let mut got = Vec::new();
                let r = run_guarded(|| kestrel_crypto::encrypt::key_encrypt(&mut &pt[..], &mut got, &sk, &spk, &rpk, Some(&ek), Some(&epk), Some(&pk), AsymFileFormat::V1).map_err(|e| e.to_string()));
                out.count("probe.c06_noncanonical_public_keys", 1);
                let what = ["the recipient's public key", "the sender's public key", "both public keys"][which as usize];
                match r {
                    Guarded::Returned(Ok(())) => {
                        if got != want {
                            out.violations.push(viol("C06", "noncanonical_key_bytes_not_hashed_as_given", format!("with bit 255 set in {}, the file differs from the documented format at byte {} (Noise hashes key bytes as given)", what, first_diff(&got, &want))));
                        }
                    }
                    o => out.violations.push(viol("C06", "noncanonical_key_refused", format!("encryption with bit 255 set in {} did not succeed: {}", what, match o { Guarded::Returned(Err(e)) => e, Guarded::Panicked(m) => format!("panic {}", m), _ => "hang".into() }))),
                }
                // and the conforming file decrypts, reporting the sender's key bytes as they were given
                let mut back = Vec::new();
                let d = run_guarded(|| kestrel_crypto::decrypt::key_decrypt(&mut &want[..], &mut back, &rk_, &rpk, AsymFileFormat::V1).map(|k| k.as_bytes().to_vec()).map_err(|e| e.to_string()));
                match d {
                    Guarded::Returned(Ok(snd)) => {
                        if back != pt || snd[..] != spk_b[..] {
                            out.violations.push(viol("C06", "noncanonical_key_file_read_differently", format!("a conforming file made with bit 255 set in {} decrypts to {} bytes (P has {}) from sender {}", what, back.len(), pt.len(), to_hex(&snd))));
                        }
                    }
                    o => out.violations.push(viol("C06", "noncanonical_key_file_rejected", format!("a conforming file made with bit 255 set in {} was rejected: {}", what, match o { Guarded::Returned(Err(e)) => e, Guarded::Panicked(m) => format!("panic {}", m), _ => "hang".into() }))),
                }
            }
        }
        // ---- reverse direction (C06): reference-written file with an arbitrary legal chunking
        let rev_mode = match &s.mode {
            Mode::Key { s_priv, r_priv, e_priv: None, .. } | Mode::Key { s_priv, r_priv, omit_e_pub: true, .. } => {
                let mut r = Rng::new(s.entropy_tag ^ 0x5151);
                Mode::Key { s_priv: s_priv.clone(), r_priv: r_priv.clone(), e_priv: Some(Hx(r.bytes(32))), payload: Some(Hx(r.bytes(32))), omit_e_pub: false }
            }
            m => m.clone(),
        };
        if let Some(rfile) = reference_file(&rev_mode, &pt, &s.rev_chunking, &mut scrypt) {
            let d = run_decrypt(&rev_mode, &rfile, &s.rev_rs, &s.dec_ws, &trace, None, None);
            out.count("probe.c06_reverse", 1);
            if s.rev_chunking.iter().any(|c| *c != cs) && s.rev_chunking.len() > 1 {
                out.count("probe.c06_reverse_irregular_chunking", 1);
            }
            match &d.outcome {
                Outcome::Ok(sender) => {
                    if d.sink != pt {
                        out.violations.push(viol("C06", "reverse_plaintext", format!("a conforming file with chunking {:?}.. decrypts to different bytes", &s.rev_chunking[..s.rev_chunking.len().min(6)])));
                    }
                    if let Mode::Key { s_priv, .. } = &rev_mode {
                        if sender.as_deref() != Some(&pubkey_of(&s_priv.a32())[..]) {
                            out.violations.push(viol("C06", "reverse_sender", "a conforming file decrypts to a different sender".into()));
                        }
                    }
                }
                o => out.violations.push(viol("C06", "reverse_rejected", format!("a conforming file ({} chunks, sizes {:?}..) was rejected: {:?}", s.rev_chunking.len().max(1), &s.rev_chunking[..s.rev_chunking.len().min(6)], o))),
            }
            // pinned release writes -> working tree reads (key mode, regular chunking only)
            if let (Mode::Key { s_priv, r_priv, e_priv: Some(e), payload: Some(p), .. }, true) = (&rev_mode, public_api) {
                if let Some(pf) = crate::selftest::pinned_key_encrypt(&s_priv.a32(), &r_priv.a32(), &e.a32(), &p.a32(), &pt) {
                    let d = run_decrypt(&rev_mode, &pf, &s.rev_rs, &s.dec_ws, &trace, None, None);
                    out.count("probe.c06_pinned_writer", 1);
                    if !(d.outcome.is_ok() && d.sink == pt) {
                        out.violations.push(viol("C06", "pinned_file_rejected", format!("a file written by the pinned release no longer decrypts: {:?}", d.outcome)));
                    }
                }
            }
        }
        remove_seal_observer();
        if let Some(r) = seal.borrow().reuse.clone() {
            out.violations.push(viol("C07", "nonce_reuse", r));
        }
        let t = trace.borrow();
        out.trace_hash = t.hash;
        out.steps = t.seq;
        out.merge_fired(&t.fired);
        // reach probes
        let lookahead_zero_at_multiple = pt.len() > 0 && pt.len() % cs == 0 && read_sizes.iter().all(|r| *r == cs);
        out.count("probe.lookahead_eof_at_chunk_multiple", lookahead_zero_at_multiple as u64);
        out.count("probe.empty_plaintext", (pt.is_empty()) as u64);
        out.count("probe.multi_chunk", (read_sizes.len() > 1) as u64);
        out.signature = format!(
            "a1|{}|{}|n{}|er{}|ew{}|dr{}|dw{}|rev{}",
            s.mode.class(),
            len_class(pt.len(), cs),
            read_sizes.len().min(5),
            caps_class(&s.enc_rs.caps),
            caps_class(&s.enc_ws.caps),
            caps_class(&s.dec_rs.caps),
            caps_class(&s.dec_ws.caps),
            s.rev_chunking.len().min(4),
        );
        out.nontrivial = !s.enc_rs.caps.is_empty() || !s.enc_ws.caps.is_empty() || !s.dec_rs.caps.is_empty() || !s.dec_ws.caps.is_empty() || read_sizes.len() > 1;
        out
    }

    fn shrink(&self, s: &Scn) -> Vec<Scn> {
        let mut c = Vec::new();
        for f in [0usize, 1, 2, 3, 4] {
            let mut t = s.clone();
            let caps = match f {
                0 => &mut t.enc_rs.caps,
                1 => &mut t.enc_ws.caps,
                2 => &mut t.dec_rs.caps,
                3 => &mut t.dec_ws.caps,
                _ => &mut t.rev_rs.caps,
            };
            if !caps.is_empty() {
                caps.clear();
                c.push(t);
            }
        }
        for nl in [0usize, 1, s.plain.len / 2, s.plain.len.saturating_sub(1)] {
            if nl < s.plain.len {
                let mut t = s.clone();
                t.plain.len = nl;
                t.rev_chunking = full_chunking(nl, t.mode.cs());
                c.push(t);
            }
        }
        if s.rev_chunking != full_chunking(s.plain.len, s.mode.cs()) {
            let mut t = s.clone();
            t.rev_chunking = full_chunking(s.plain.len, s.mode.cs());
            c.push(t);
        }
        if !s.wrong.is_empty() {
            let mut t = s.clone();
            t.wrong.pop();
            c.push(t);
        }
        c
    }
    fn real_components(&self) -> Vec<&'static str> {
        vec!["kestrel-crypto (working tree): encrypt.rs, decrypt.rs, noise.rs, lib.rs, scrypt.rs, errors.rs", "orion", "zeroize", "kestrel-crypto 3.0.0 pinned release (registry copy) as a second node type"]
    }
    fn simulated_components(&self) -> Vec<&'static str> {
        vec!["plaintext/ciphertext source (ScriptedSource)", "sink (ScriptedSink)", "OS entropy (seeded hash stream through the verif hook)", "reference writer/reader (executable specification)"]
    }
}

//! Family A3 "store-corrupt": storage faults (seam S3) on authentic files between a write and
//! a later read: bit flips, truncation, extension, lost / duplicated / reordered / misdirected
//! records, header fields spliced between files. Decides C03; C04 (release monitor) and C09
//! (no panic / hang) ride along.

use crate::engine::*;
use crate::gen::*;
use crate::hx::Hx;
use crate::ops::*;
use crate::refmodel::format as rf;
use crate::rng::Rng;
use crate::seams::*;
use serde::{Deserialize, Serialize};

#[derive(Serialize, Deserialize, Clone, Debug)]
pub struct FileSpec {
    pub plain: Plain,
    pub chunking: Vec<usize>,
    /// per-file secrets: key mode = (sender private, ephemeral private, payload key);
    /// pass mode = salt in `a`; hook mode = key in `a`
    pub a: Hx,
    pub b: Hx,
    pub c: Hx,
}

#[derive(Serialize, Deserialize, Clone, Debug, PartialEq)]
pub enum StoreFault {
    // structural (applied first, in order, on the record structure of the target file)
    DropRecord { i: usize },
    DupRecord { i: usize },
    SwapRecords { i: usize, j: usize },
    /// replace/insert record j of the target with record i of another authentic file
    MoveRecord { from_file: usize, i: usize, j: usize, replace: bool },
    /// copy header field `field` (0 magic, 1 ephemeral/salt, 2 enc static, 3 enc payload) from another file
    SpliceField { field: usize, from_file: usize },
    SetFlag { i: usize, v: u32 },
    SetCounter { i: usize, v: u64 },
    SetLen { i: usize, v: u32 },
    // byte level (applied afterwards, in order)
    FlipBit { off: usize, bit: u8 },
    Truncate { len: usize },
    Append { bytes: Hx },
    AppendRecord { from_file: usize, i: usize },
    /// a long run of zero bytes after the file (a sparse tail, a concatenated image)
    AppendZeros { n: usize },
    /// cut the file right after chunk record i (applied after the structural faults)
    CutAfterRecord { i: usize },
    /// not a change to the stored bytes: the k-th read call of the decryptor is interrupted once
    /// (ErrorKind::Interrupted, to be retried). Combined with a stored fault: a transient interruption
    /// must never turn a file that has to be refused into an accepted one.
    InterruptRead { k: usize },
}

#[derive(Serialize, Deserialize, Clone, Debug, PartialEq)]
pub enum Kind {
    Hook { aad: Hx, cs: u32 },
    Key { r_priv: Hx },
    Pass { password: Hx },
}

#[derive(Serialize, Deserialize, Clone, Debug)]
pub struct Scn {
    pub kind: Kind,
    pub files: Vec<FileSpec>,
    pub target: usize,
    pub faults: Vec<StoreFault>,
    pub rs: ReadScript,
    pub enumerate: bool,
    /// in enumeration, sample this many body bit flips per record instead of all (0 = all)
    pub body_sample: usize,
    /// upper bound on the enumerated neighbourhood (thinned with the scenario's own PRNG beyond it)
    pub max_enum: usize,
}

pub struct A3;

/// A file as header fields + chunk records (each record: counter, flag, len, body||tag).
#[derive(Clone)]
pub struct Structured {
    pub fields: Vec<Vec<u8>>,
    pub recs: Vec<[Vec<u8>; 4]>,
}

impl Structured {
    pub fn flat(&self) -> Vec<u8> {
        let mut v = Vec::new();
        for f in &self.fields {
            v.extend_from_slice(f);
        }
        for r in &self.recs {
            for p in r {
                v.extend_from_slice(p);
            }
        }
        v
    }
    pub fn header_len(&self) -> usize {
        self.fields.iter().map(|f| f.len()).sum()
    }
    /// byte ranges of the counter fields in the flat file
    pub fn counter_ranges(&self) -> Vec<(usize, usize)> {
        let mut off = self.header_len();
        let mut out = vec![];
        for r in &self.recs {
            out.push((off, off + 8));
            off += r.iter().map(|p| p.len()).sum::<usize>();
        }
        out
    }
}

fn mode_for(kind: &Kind, f: &FileSpec) -> Mode {
    match kind {
        Kind::Hook { aad, cs } => Mode::Hook { key: f.a.clone(), aad: aad.clone(), cs: *cs },
        Kind::Key { r_priv } => Mode::Key { s_priv: f.a.clone(), r_priv: r_priv.clone(), e_priv: Some(f.b.clone()), payload: Some(f.c.clone()), omit_e_pub: false },
        Kind::Pass { password } => Mode::Pass { password: password.clone(), salt: f.a.clone() },
    }
}

pub fn build(kind: &Kind, f: &FileSpec) -> (Structured, Vec<u8>) {
    let pt = f.plain.bytes();
    let mode = mode_for(kind, f);
    let bytes = reference_file(&mode, &pt, &f.chunking, &mut |p, s| ref_scrypt_cached(p, s)).unwrap();
    let hl = mode.header_len();
    let fields = match kind {
        Kind::Hook { .. } => vec![],
        Kind::Key { .. } => vec![bytes[..4].to_vec(), bytes[4..36].to_vec(), bytes[36..84].to_vec(), bytes[84..132].to_vec()],
        Kind::Pass { .. } => vec![bytes[..4].to_vec(), bytes[4..36].to_vec()],
    };
    let mut recs = vec![];
    let mut off = hl;
    let sizes: Vec<usize> = if f.chunking.is_empty() { vec![0] } else { f.chunking.clone() };
    for s in sizes {
        recs.push([bytes[off..off + 8].to_vec(), bytes[off + 8..off + 12].to_vec(), bytes[off + 12..off + 16].to_vec(), bytes[off + 16..off + 32 + s].to_vec()]);
        off += 32 + s;
    }
    assert_eq!(off, bytes.len());
    (Structured { fields, recs }, pt)
}

pub fn apply(files: &[Structured], target: usize, faults: &[StoreFault]) -> Vec<u8> {
    let mut t = files[target].clone();
    for f in faults {
        match f {
            StoreFault::DropRecord { i } => {
                if *i < t.recs.len() {
                    t.recs.remove(*i);
                }
            }
            StoreFault::DupRecord { i } => {
                if *i < t.recs.len() {
                    let r = t.recs[*i].clone();
                    t.recs.insert(*i + 1, r);
                }
            }
            StoreFault::SwapRecords { i, j } => {
                if *i < t.recs.len() && *j < t.recs.len() {
                    t.recs.swap(*i, *j);
                }
            }
            StoreFault::MoveRecord { from_file, i, j, replace } => {
                if let Some(src) = files.get(*from_file) {
                    if *i < src.recs.len() && *j <= t.recs.len() {
                        let r = src.recs[*i].clone();
                        if *replace && *j < t.recs.len() {
                            t.recs[*j] = r;
                        } else {
                            t.recs.insert(*j, r);
                        }
                    }
                }
            }
            StoreFault::SpliceField { field, from_file } => {
                if let Some(src) = files.get(*from_file) {
                    if *field < t.fields.len() && *field < src.fields.len() {
                        t.fields[*field] = src.fields[*field].clone();
                    }
                }
            }
            StoreFault::SetFlag { i, v } => {
                if *i < t.recs.len() {
                    t.recs[*i][1] = v.to_be_bytes().to_vec();
                }
            }
            StoreFault::SetCounter { i, v } => {
                if *i < t.recs.len() {
                    t.recs[*i][0] = v.to_be_bytes().to_vec();
                }
            }
            StoreFault::SetLen { i, v } => {
                if *i < t.recs.len() {
                    t.recs[*i][2] = v.to_be_bytes().to_vec();
                }
            }
            _ => {}
        }
    }
    let mut b = t.flat();
    for f in faults {
        match f {
            StoreFault::FlipBit { off, bit } => {
                if *off < b.len() {
                    b[*off] ^= 1 << (bit & 7);
                }
            }
            StoreFault::Truncate { len } => {
                if *len < b.len() {
                    b.truncate(*len);
                }
            }
            StoreFault::Append { bytes } => b.extend_from_slice(&bytes.0),
            StoreFault::AppendZeros { n } => b.resize(b.len() + *n, 0),
            StoreFault::CutAfterRecord { i } => {
                let mut off = t.header_len();
                for (k, r) in t.recs.iter().enumerate() {
                    off += r.iter().map(|p| p.len()).sum::<usize>();
                    if k == *i {
                        break;
                    }
                }
                if off < b.len() {
                    b.truncate(off);
                }
            }
            StoreFault::AppendRecord { from_file, i } => {
                if let Some(src) = files.get(*from_file) {
                    if let Some(r) = src.recs.get(*i) {
                        for p in r {
                            b.extend_from_slice(p);
                        }
                    }
                }
            }
            _ => {}
        }
    }
    b
}

/// F' is equivalent to authentic file k iff it has the same length and differs at most inside
/// the advisory 8-byte counter fields of F_k.
fn equivalent_to(fp: &[u8], files: &[Structured]) -> Option<usize> {
    'files: for (k, f) in files.iter().enumerate() {
        let flat = f.flat();
        if flat.len() != fp.len() {
            continue;
        }
        let ranges = f.counter_ranges();
        for (i, (a, b)) in flat.iter().zip(fp.iter()).enumerate() {
            if a != b && !ranges.iter().any(|(s, e)| i >= *s && i < *e) {
                continue 'files;
            }
        }
        return Some(k);
    }
    None
}

fn fault_class(f: &StoreFault, hl: usize) -> String {
    match f {
        StoreFault::FlipBit { off, .. } => {
            if *off < 4 {
                "flip:magic".into()
            } else if *off < hl {
                "flip:header".into()
            } else {
                "flip:chunks".into()
            }
        }
        StoreFault::Truncate { len } => {
            if *len < hl {
                "trunc:header".into()
            } else {
                "trunc:chunks".into()
            }
        }
        StoreFault::DropRecord { .. } => "drop".into(),
        StoreFault::DupRecord { .. } => "dup".into(),
        StoreFault::SwapRecords { .. } => "swap".into(),
        StoreFault::MoveRecord { replace, .. } => format!("move{}", if *replace { "R" } else { "I" }),
        StoreFault::SpliceField { field, .. } => format!("splice{}", field),
        StoreFault::SetFlag { v, .. } => format!("flag{}", v.min(&2)),
        StoreFault::SetCounter { .. } => "counter".into(),
        StoreFault::SetLen { .. } => "len".into(),
        StoreFault::Append { .. } => "append".into(),
        StoreFault::AppendZeros { .. } => "appendzeros".into(),
        StoreFault::CutAfterRecord { .. } => "cutafter".into(),
        StoreFault::AppendRecord { .. } => "appendrec".into(),
        StoreFault::InterruptRead { .. } => "interruptread".into(),
    }
}

impl A3 {
    fn judge(&self, s: &Scn, structured: &[Structured], plains: &[Vec<u8>], base: &crate::alloc::Stats) -> RunOut {
        let mut out = RunOut::default();
        out.props = vec!["C03", "C04", "C09"];
        let fp = apply(structured, s.target, &s.faults);
        let tmode = mode_for(&s.kind, &s.files[s.target]);
        let (rv, rsender) = reference_verdict(&tmode, &fp, &mut |p, salt| ref_scrypt_cached(p, salt));
        let mut cum = 0;
        let monitor = ReleaseMonitor {
            recs: rv.recs.iter().map(|r| { cum += r.pt.len(); (r.end, cum) }).collect(),
            auth_plain: rv.plaintext(),
        };
        let min_cap = s.rs.caps.iter().copied().min().unwrap_or(usize::MAX).max(1);
        let trace = Trace::new(budget_for(fp.len() + 300, min_cap.min(64)) + 40 * (fp.len() as u64 / 32 + 1), false);
        let mut rs = s.rs.clone();
        for f in &s.faults {
            if let StoreFault::InterruptRead { k } = f {
                rs.faults.push((*k, IoFault::Interrupted));
            }
        }
        crate::alloc::start();
        let d = run_decrypt(&tmode, &fp, &rs, &WriteScript::default(), &trace, Some(monitor), None);
        let mem = crate::alloc::stop();
        // C09 boundedness, relative: rejecting (or accepting) F' must not cost more memory or more
        // key derivations than decrypting the authentic target file through the same seams
        let cs_allow = match &s.kind {
            Kind::Hook { cs, .. } => *cs as i64,
            _ => 65536,
        };
        // only allocations made by kestrel itself are counted (seam callbacks pause the accounting)
        let allowance = 65536 + 2 * cs_allow;
        if mem.peak > base.peak + allowance {
            out.violations.push(viol("C09", "memory_raised_by_untrusted_field", format!("decrypting the damaged file peaked at {} live bytes; the authentic file needs {} (faults {:?})", mem.peak, base.peak, &s.faults[..s.faults.len().min(3)])));
        }
        if mem.big_allocs > base.big_allocs {
            out.violations.push(viol("C09", "key_derivation_cost_raised", format!("{} allocations of >= 16 MiB (key derivations) vs {} for the authentic file", mem.big_allocs, base.big_allocs)));
        }
        let t = trace.borrow();
        out.trace_hash = t.hash;
        out.steps = t.seq;
        out.merge_fired(&t.fired);
        for f in &s.faults {
            out.count(&format!("fault.store.{}", fault_class(f, structured[s.target].header_len())), 1);
        }
        // in hook mode the key is not in the file: only the target's own bytes are authentic under it
        let equiv = match &s.kind {
            Kind::Hook { .. } => equivalent_to(&fp, &structured[s.target..s.target + 1]).map(|_| s.target),
            _ => equivalent_to(&fp, structured),
        };
        match &d.outcome {
            Outcome::Panic(m) => out.violations.push(viol("C09", "panic_on_untrusted_file", format!("decrypting a damaged file panicked: {}", m))),
            Outcome::Hang => out.violations.push(viol("C09", "hang_on_untrusted_file", "step budget exceeded while decrypting a damaged file".into())),
            Outcome::Ok(sender) => {
                out.count("probe.accepted", 1);
                // (i) property level, reference-free
                match equiv {
                    Some(k) => {
                        if d.sink != plains[k] {
                            out.violations.push(viol("C03", "accepted_wrong_plaintext", format!("accepted, but the output ({} bytes) is not the complete plaintext of the authentic file ({} bytes)", d.sink.len(), plains[k].len())));
                        }
                        if let Kind::Key { .. } = &s.kind {
                            let want = pubkey_of(&s.files[k].a.a32());
                            if sender.as_deref() != Some(&want[..]) {
                                out.violations.push(viol("C03", "accepted_wrong_sender", "accepted, but the reported sender is not the authentic file's sender".into()));
                            }
                        }
                    }
                    None => {
                        // (ii) everything that is not an authentic file modulo counter fields must be rejected
                        let whole = plains.iter().any(|p| *p == d.sink);
                        out.violations.push(viol("C03", "forgery_accepted", format!("a byte string that is not an authentic file (faults {:?}) was accepted; output {} bytes{}", &s.faults[..s.faults.len().min(4)], d.sink.len(), if whole { " (equal to an authentic plaintext)" } else { " (NOT equal to any authentic plaintext)" })));
                    }
                }
                // (iii) refinement against the acceptance model
                if !rv.accepted() {
                    out.violations.push(viol("C03", "model_rejects_impl_accepts", format!("reference acceptance model rejects ({:?}) what the decryptor accepts", rv.reject)));
                } else if rv.plaintext() != d.sink || (matches!(s.kind, Kind::Key { .. }) && rsender.map(|x| x.to_vec()) != *sender) {
                    out.violations.push(viol("C03", "model_differs", "accepted with a plaintext or sender different from the reference model's".into()));
                }
            }
            Outcome::Err(e) => {
                out.count(&format!("probe.reject.{}", e.variant), 1);
                if let Some(k) = equiv {
                    out.violations.push(viol("C03", "authentic_rejected", format!("a file identical to authentic file {} outside the advisory counter fields was rejected: {} ({})", k, e.variant, e.message)));
                } else if rv.accepted() {
                    out.violations.push(viol("C03", "model_accepts_impl_rejects", format!("reference model accepts what the decryptor rejects: {}", e.variant)));
                }
                // C04: on error the sink holds a whole-chunk prefix of the authenticated plaintext
                let auth = rv.plaintext();
                let mut ok = d.sink.is_empty();
                let mut cum = 0;
                for r in &rv.recs {
                    cum += r.pt.len();
                    if d.sink.len() == cum {
                        ok = true;
                    }
                }
                if !(ok && auth.starts_with(&d.sink)) {
                    out.violations.push(viol("C04", "error_leaves_partial_chunk", format!("after the error the sink holds {} bytes, not a whole-chunk prefix of the {} authenticated bytes", d.sink.len(), auth.len())));
                }
            }
        }
        if let Some(m) = &t.monitor_violation {
            out.violations.push(viol("C04", "release_before_auth", m.clone()));
        }
        if d.outcome.is_ok() {
            // C04: success only after a final chunk verified and the ciphertext ends right after it
            let last_final = rv.recs.last().map(|r| r.flag == 1 && r.end == fp.len()).unwrap_or(false);
            if !last_final {
                out.violations.push(viol("C04", "ok_without_final_chunk_at_eof", "success reported although no authenticated final chunk ends the ciphertext".into()));
            }
        }
        let classes: Vec<String> = s.faults.iter().map(|f| fault_class(f, structured[s.target].header_len())).collect();
        out.signature = format!(
            "a3|{}|f{}|n{}|{}|r{}|{}",
            match &s.kind {
                Kind::Hook { cs, .. } => format!("hook{}", cs),
                Kind::Key { .. } => "key".into(),
                Kind::Pass { .. } => "pass".into(),
            },
            s.files.len(),
            structured[s.target].recs.len().min(4),
            classes.join("+"),
            crate::fam::a2::caps_class(&s.rs.caps),
            d.outcome.class()
        );
        out.nontrivial = !s.faults.is_empty();
        out
    }

    fn prepare(&self, s: &Scn) -> (Vec<Structured>, Vec<Vec<u8>>, crate::alloc::Stats) {
        let mut st = vec![];
        let mut pl = vec![];
        for f in &s.files {
            let (a, b) = build(&s.kind, f);
            st.push(a);
            pl.push(b);
        }
        // memory baseline: the authentic target file through the same seams
        let flat = st[s.target].flat();
        let tmode = mode_for(&s.kind, &s.files[s.target]);
        let trace = Trace::new(u64::MAX / 2, false);
        crate::alloc::start();
        let _ = run_decrypt(&tmode, &flat, &s.rs, &WriteScript::default(), &trace, None, None);
        let base = crate::alloc::stop();
        (st, pl, base)
    }
}

fn gen_fault(rng: &mut Rng, st: &[Structured], target: usize, cs: usize) -> StoreFault {
    let t = &st[target];
    let flat_len = t.flat().len();
    let nrec = t.recs.len();
    let other = if st.len() > 1 { (target + 1 + rng.usize_below(st.len() - 1)) % st.len() } else { target };
    match rng.below(14) {
        0 | 1 => StoreFault::FlipBit { off: rng.usize_below(flat_len), bit: rng.below(8) as u8 },
        2 => StoreFault::Truncate { len: rng.usize_below(flat_len) },
        3 => { let n = 1 + rng.usize_below(40); StoreFault::Append { bytes: Hx(rng.bytes(n)) } }
        4 => StoreFault::DropRecord { i: rng.usize_below(nrec) },
        5 => StoreFault::DupRecord { i: rng.usize_below(nrec) },
        6 => StoreFault::SwapRecords { i: rng.usize_below(nrec), j: rng.usize_below(nrec) },
        7 => StoreFault::MoveRecord { from_file: other, i: rng.usize_below(st[other].recs.len()), j: rng.usize_below(nrec + 1), replace: rng.chance(1, 2) },
        8 => StoreFault::SpliceField { field: rng.usize_below(t.fields.len().max(1)), from_file: other },
        9 => StoreFault::SetFlag { i: rng.usize_below(nrec), v: *rng.pick(&[0u32, 1, 2, 0x0100_0000, 0xFFFF_FFFF]) },
        10 => StoreFault::SetCounter { i: rng.usize_below(nrec), v: *rng.pick(&[0u64, 1, 7, u64::MAX, 1 << 32]) },
        11 => StoreFault::SetLen { i: rng.usize_below(nrec), v: *rng.pick(&[0u32, 1, cs as u32, cs as u32 + 1, 0xFFFF_FFFF, 0x8000_0000, 17]) },
        12 => StoreFault::AppendRecord { from_file: other, i: rng.usize_below(st[other].recs.len()) },
        _ => StoreFault::Append { bytes: Hx(vec![0]) },
    }
}

impl Family for A3 {
    type Scenario = Scn;
    fn name(&self) -> &'static str {
        "a3"
    }
    fn properties(&self) -> &'static [&'static str] {
        &["C03", "C04", "C09"]
    }
    fn budget(&self, tier: Tier, p: &str) -> u64 {
        let q = if p == "C03" { 400 } else { 200 };
        q * match tier {
            Tier::Quick => 1,
            Tier::Thorough => 50,
        }
    }
    fn generate(&self, rng: &mut Rng, tier: Tier, _idx: u64) -> Scn {
        let m = rng.below(100);
        let pass_cut = if tier == Tier::Quick { 99 } else { 97 };
        let kind = if m < 65 {
            Kind::Hook { aad: Hx(if rng.chance(1, 2) { vec![0x65, 0x67, 0x6b, 0x20] } else { vec![] }), cs: *rng.pick(&[1u32, 2, 3, 4, 7, 8, 16]) }
        } else if m < pass_cut {
            Kind::Key { r_priv: Hx(rng.bytes(32)) }
        } else {
            Kind::Pass { password: Hx(gen_password(rng)) }
        };
        let cs = match &kind {
            Kind::Hook { cs, .. } => *cs as usize,
            _ => 65536,
        };
        let nfiles = rng.range(1, 3) as usize;
        let mut files = vec![];
        for _ in 0..nfiles {
            let plain = if cs == 65536 {
                if rng.chance(1, 12) {
                    Plain { len: cs + rng.usize_below(3), fill_seed: rng.next_u64() }
                } else {
                    Plain { len: rng.usize_below(80), fill_seed: rng.next_u64() }
                }
            } else {
                gen_plain(rng, cs, 3)
            };
            // real modes at the production chunk size: keep multi-chunk files cheap with small chunks
            let chunking = if cs == 65536 && plain.len < 80 && rng.chance(1, 2) { let m = 1 + rng.usize_below(40); gen_chunking(rng, plain.len, m) } else { gen_chunking(rng, plain.len, cs) };
            let chunking = if chunking.len() > 48 { full_chunking(plain.len, cs) } else { chunking };
            files.push(FileSpec { plain, chunking, a: Hx(rng.bytes(32)), b: Hx(rng.bytes(32)), c: Hx(rng.bytes(32)) });
        }
        let target = rng.usize_below(nfiles);
        let (caps, _) = gen_caps(rng, cs.min(64));
        let enumerate = rng.chance(1, 2);
        let mut s = Scn { kind, files, target, faults: vec![], rs: ReadScript { caps, faults: vec![] }, enumerate, body_sample: if cs == 65536 { 6 } else { 0 }, max_enum: if tier == Tier::Quick { 4000 } else { 20000 } };
        if !enumerate {
            let (st, _, _) = self.prepare(&s);
            let n = rng.range(1, 4);
            for _ in 0..n {
                s.faults.push(gen_fault(rng, &st, target, cs));
            }
        }
        s
    }

    fn execute(&self, s: &Scn) -> RunOut {
        let (st, pl, base) = self.prepare(s);
        self.judge(s, &st, &pl, &base)
    }

    fn execute_all(&self, base: &Scn, emit: &mut dyn FnMut(Scn, RunOut)) {
        let (st, pl, mem_base) = self.prepare(base);
        if !base.enumerate {
            emit(base.clone(), self.judge(base, &st, &pl, &mem_base));
            return;
        }
        let pass = matches!(base.kind, Kind::Pass { .. });
        let t = &st[base.target];
        let flat = t.flat();
        let hl = t.header_len();
        let cs = match &base.kind {
            Kind::Hook { cs, .. } => *cs,
            _ => 65536,
        };
        let mut cands: Vec<Vec<StoreFault>> = Vec::new();
        let mut one = |faults: Vec<StoreFault>| cands.push(faults);
        // the unmodified file first
        one(vec![]);
        // every single-bit flip (in pass mode every flip of the salt costs one scrypt: sampled)
        let mut pick = Rng::new(base.files[0].plain.fill_seed ^ 0x77);
        let mut rec_starts = vec![];
        {
            let mut off = hl;
            for r in &t.recs {
                rec_starts.push(off);
                off += r.iter().map(|p| p.len()).sum::<usize>();
            }
        }
        for off in 0..flat.len() {
            let in_header = off < hl;
            let in_chunk_header = rec_starts.iter().any(|s| off >= *s && off < *s + 16);
            let sample_body = base.body_sample > 0 && !in_header && !in_chunk_header;
            if pass && in_header && off >= 4 {
                if pick.below(32) != 0 {
                    continue;
                }
            }
            if sample_body && pick.below(flat.len() as u64) >= base.body_sample as u64 * 8 {
                continue;
            }
            for bit in 0..8u8 {
                if (pass && in_header && off >= 4 || sample_body) && bit != (off % 8) as u8 {
                    continue;
                }
                one(vec![StoreFault::FlipBit { off, bit }]);
            }
        }
        // every truncation length (pass mode: lengths >= 36 trigger one scrypt each; sampled)
        for len in 0..flat.len() {
            if pass && len >= 36 && pick.below(8) != 0 {
                continue;
            }
            if flat.len() > 4000 && len > 300 && pick.below(64) != 0 {
                continue;
            }
            one(vec![StoreFault::Truncate { len }]);
        }
        // a non-final chunk promoted to "last" (or to any other flag value) with the file cut right
        // after it: the classic truncation attack, plus its non-canonical variants
        for i in 0..t.recs.len().min(6) {
            for v in [1u32, 2, 0x0100_0000, 0xFFFF_FFFF] {
                one(vec![StoreFault::SetFlag { i, v }, StoreFault::CutAfterRecord { i }]);
            }
            one(vec![StoreFault::CutAfterRecord { i }]);
        }
        // a long tail behind an authentic file must be refused without being buffered
        one(vec![StoreFault::AppendZeros { n: 300_000 }]);
        one(vec![StoreFault::AppendZeros { n: 2_000_000 }]);
        // extension by one byte and by whole authentic records
        one(vec![StoreFault::Append { bytes: Hx(vec![0]) }]);
        one(vec![StoreFault::Append { bytes: Hx(vec![0xff]) }]);
        for (fi, f) in st.iter().enumerate() {
            for i in 0..f.recs.len().min(4) {
                one(vec![StoreFault::AppendRecord { from_file: fi, i }]);
            }
        }
        // ... and extended files with one read call interrupted (every position up to past the
        // end-of-stream probe). Whether the decryptor retries the interrupted call or gives up with a
        // read error is C10's business (family a2); here: it must not turn into acceptance.
        let reads = 2 * t.recs.len().min(6) + 8;
        for k in 0..reads {
            one(vec![StoreFault::Append { bytes: Hx(vec![0x5a; 40]) }, StoreFault::InterruptRead { k }]);
            if k % 3 == 0 {
                one(vec![StoreFault::AppendRecord { from_file: base.target, i: 0 }, StoreFault::InterruptRead { k }]);
            }
        }
        let n = t.recs.len();
        for i in 0..n.min(6) {
            one(vec![StoreFault::DropRecord { i }]);
            one(vec![StoreFault::DupRecord { i }]);
            for j in (i + 1)..n.min(6) {
                one(vec![StoreFault::SwapRecords { i, j }]);
            }
            for v in [0u32, 1, 2, 0xFFFF_FFFF] {
                one(vec![StoreFault::SetFlag { i, v }]);
            }
            for v in [0u32, 1, cs, cs + 1, 0xFFFF_FFFF, 0x8000_0000] {
                one(vec![StoreFault::SetLen { i, v }]);
            }
            for v in [0u64, 1, 99, u64::MAX] {
                one(vec![StoreFault::SetCounter { i, v }]);
            }
        }
        // misdirected records and header fields from other authentic files
        for (fi, f) in st.iter().enumerate() {
            if fi == base.target {
                continue;
            }
            for i in 0..f.recs.len().min(3) {
                for j in 0..=n.min(3) {
                    one(vec![StoreFault::MoveRecord { from_file: fi, i, j, replace: true }]);
                    one(vec![StoreFault::MoveRecord { from_file: fi, i, j, replace: false }]);
                }
            }
            for field in 0..t.fields.len() {
                one(vec![StoreFault::SpliceField { field, from_file: fi }]);
            }
            // whole header from the other file (all fields)
            one((0..t.fields.len()).map(|field| StoreFault::SpliceField { field, from_file: fi }).collect());
        }
        // every execution in password mode costs one scrypt evaluation (~0.1 s): subsample the
        // neighbourhood there; bound it elsewhere
        let cap = if pass { base.max_enum.min(60).max(8) } else { base.max_enum.max(8) };
        if cands.len() > cap {
            let mut keep = Vec::with_capacity(cap);
            let total = cands.len();
            for (i, c) in cands.into_iter().enumerate() {
                // seeded reservoir-free thinning: keep with probability cap/total, always keep the first
                if i == 0 || pick.below(total as u64) < cap as u64 {
                    keep.push(c);
                }
            }
            cands = keep;
        }
        for faults in cands {
            let mut s = base.clone();
            s.faults = faults;
            s.enumerate = false;
            let out = self.judge(&s, &st, &pl, &mem_base);
            emit(s, out);
        }
    }

    fn shrink(&self, s: &Scn) -> Vec<Scn> {
        let mut c = vec![];
        for i in 0..s.faults.len() {
            if s.faults.len() > 1 {
                let mut t = s.clone();
                t.faults.remove(i);
                c.push(t);
            }
        }
        if !s.rs.caps.is_empty() {
            let mut t = s.clone();
            t.rs.caps.clear();
            c.push(t);
        }
        // drop files that are not the target (only safe when no fault refers to them)
        if s.files.len() > 1 {
            let refs: Vec<usize> = s
                .faults
                .iter()
                .filter_map(|f| match f {
                    StoreFault::MoveRecord { from_file, .. } | StoreFault::SpliceField { from_file, .. } | StoreFault::AppendRecord { from_file, .. } => Some(*from_file),
                    _ => None,
                })
                .collect();
            let last = s.files.len() - 1;
            if last != s.target && !refs.contains(&last) {
                let mut t = s.clone();
                t.files.pop();
                c.push(t);
            }
        }
        c
    }
    fn real_components(&self) -> Vec<&'static str> {
        vec!["kestrel-crypto (working tree): decrypt.rs, noise.rs, lib.rs, scrypt.rs, errors.rs", "orion"]
    }
    fn simulated_components(&self) -> Vec<&'static str> {
        vec!["durable storage between encrypt and decrypt (BlobStore: authentic files written by the reference writer, then storage faults)", "ciphertext source (ScriptedSource)", "plaintext sink with the online release monitor"]
    }
}

//! Family B5 "syscall faults": the real kestrel binary with the results of its read / write /
//! open system calls decided by the LD_PRELOAD shim (/verif/shim/iofault.c): short reads and
//! partial writes on stdin, stdout, the input path and the output path; EINTR, EIO, ENOSPC,
//! EPIPE at the k-th call; EACCES when the output file is created. Oracle: CLI reference model
//! (exit 0 <=> completed; a fired hard fault => exit 1 with an Error line, never 101 or a
//! signal); output is a prefix of the fault-free output. Contributes to C12, C13 and C10.

use crate::cli::*;
use crate::engine::*;
use crate::fam::b1::world;
use crate::ops::Plain;
use crate::refmodel::{format as rf, keyring as rk, prims as rp};
use crate::rng::Rng;
use serde::{Deserialize, Serialize};

#[derive(Serialize, Deserialize, Clone, Debug, PartialEq)]
pub enum Op {
    Encrypt,
    Decrypt,
    PassEncrypt,
    PassDecrypt,
    ExtractPub,
    ChangePass,
    KeyGenerate,
    Help,
}

#[derive(Serialize, Deserialize, Clone, Debug, PartialEq)]
pub struct Rule {
    /// "in", "out", "f=<name>"
    pub class: String,
    /// 'r', 'w', 'o'
    pub op: char,
    /// None = every call
    pub k: Option<u32>,
    /// Some(errno) = fail; None = cap
    pub errno: Option<i32>,
    pub cap: u32,
}

#[derive(Serialize, Deserialize, Clone, Debug)]
pub struct Scn {
    pub op: Op,
    pub in_file: bool,
    pub out_opt: bool,
    pub plain: Plain,
    pub rules: Vec<Rule>,
    pub seed: u64,
}

pub struct B5;

const EINTR: i32 = 4;
const EIO: i32 = 5;
const EACCES: i32 = 13;
const ENOSPC: i32 = 28;
const EPIPE: i32 = 32;

fn plan_string(rules: &[Rule]) -> String {
    rules
        .iter()
        .map(|r| format!("{}:{}:{}:{}", r.class, r.op, r.k.map(|k| k.to_string()).unwrap_or("*".into()), match r.errno { Some(e) => format!("E{}", e), None => format!("C{}", r.cap) }))
        .collect::<Vec<_>>()
        .join(";")
}

impl Family for B5 {
    type Scenario = Scn;
    fn name(&self) -> &'static str {
        "b5"
    }
    fn properties(&self) -> &'static [&'static str] {
        &["C12", "C13", "C10", "C09"]
    }
    fn budget(&self, tier: Tier, p: &str) -> u64 {
        let q = match p {
            "C12" => 250,
            "C13" => 150,
            "C09" => 120,
            _ => 200,
        };
        q * match tier {
            Tier::Quick => 1,
            Tier::Thorough => 20,
        }
    }
    fn generate(&self, rng: &mut Rng, _tier: Tier, _idx: u64) -> Scn {
        let op = match rng.below(16) {
            0..=3 => Op::Encrypt,
            4..=8 => Op::Decrypt,
            9 => Op::PassEncrypt,
            10 => Op::PassDecrypt,
            11 => Op::ExtractPub,
            12 => Op::ChangePass,
            13 => Op::KeyGenerate,
            14 => Op::Help,
            _ => Op::Decrypt,
        };
        let data_op = matches!(op, Op::Encrypt | Op::Decrypt | Op::PassEncrypt | Op::PassDecrypt);
        let in_file = rng.chance(1, 2);
        let out_opt = if data_op { rng.chance(1, 2) } else { op == Op::KeyGenerate && rng.chance(1, 2) };
        let len = match rng.below(6) {
            0 => 0,
            1 => 65536 * 2 + rng.usize_below(3),
            2 => 65536 + rng.usize_below(70000),
            _ => rng.usize_below(20000),
        };
        let in_class = if in_file && data_op { "f=input.bin".to_string() } else { "in".to_string() };
        let out_class = if out_opt { "f=output.bin".to_string() } else { "out".to_string() };
        let mut rules = vec![];
        // swarm: each run enables a random subset of fault kinds
        if data_op && rng.chance(1, 2) {
            rules.push(Rule { class: in_class.clone(), op: 'r', k: None, errno: None, cap: *rng.pick(&[1u32, 7, 100, 1000, 4096, 65535, 65536, 70000]) });
        }
        if rng.chance(1, 2) {
            rules.push(Rule { class: out_class.clone(), op: 'w', k: None, errno: None, cap: *rng.pick(&[1u32, 3, 15, 16, 17, 1000, 65536]) });
        }
        if rng.chance(2, 3) {
            let n = rng.range(1, 2);
            for _ in 0..n {
                match rng.below(6) {
                    0 if data_op => rules.push(Rule { class: in_class.clone(), op: 'r', k: Some(rng.below(8) as u32), errno: Some(*rng.pick(&[EINTR, EIO])), cap: 0 }),
                    1 | 2 => rules.push(Rule { class: out_class.clone(), op: 'w', k: Some(rng.below(10) as u32), errno: Some(*rng.pick(&[EINTR, ENOSPC, EPIPE, EIO])), cap: 0 }),
                    3 if out_opt => rules.push(Rule { class: out_class.clone(), op: 'o', k: Some(0), errno: Some(*rng.pick(&[EACCES, ENOSPC])), cap: 0 }),
                    4 if data_op && in_file => rules.push(Rule { class: in_class.clone(), op: 'o', k: Some(0), errno: Some(EACCES), cap: 0 }),
                    _ => rules.push(Rule { class: out_class.clone(), op: 'w', k: Some(rng.below(4) as u32), errno: Some(ENOSPC), cap: 0 }),
                }
            }
        }
        // an unwritable stderr (full disk behind a redirected log, a closed terminal): one run in eight
        if rng.chance(1, 8) {
            rules.push(Rule { class: "err".into(), op: 'w', k: Some(rng.below(3) as u32), errno: Some(*rng.pick(&[ENOSPC, EIO, EPIPE])), cap: 0 });
        }
        // tiny caps on big inputs are slow and add nothing
        if len > 30000 {
            for r in rules.iter_mut() {
                if r.errno.is_none() && r.cap < 1000 {
                    r.cap = 1000 + r.cap;
                }
            }
        }
        Scn { op, in_file, out_opt, plain: Plain { len, fill_seed: rng.next_u64() }, rules, seed: rng.next_u64() }
    }
    fn execute(&self, s: &Scn) -> RunOut {
        let mut out = RunOut::default();
        out.props = vec!["C12", "C13", "C10", "C09"];
        let w = world(s.seed % 16);
        let pubs: Vec<[u8; 32]> = w.sks.iter().map(rp::x25519_base).collect();
        let pt = s.plain.bytes();
        let mut r = Rng::new(s.seed ^ 0xB5);
        let (e, payload) = (r.arr32(), r.arr32());
        let fsalt = Rng::new(s.seed % 16).arr32();
        let sb = Sandbox::new("b5");
        let spec = |i: usize, p: bool| KeySpec { name: w.names[i].clone(), sk: w.sks[i], password: if p { Some(w.pws[i].clone()) } else { None }, salt: w.salts[i] };
        let kr = keyring_text(&[spec(0, true), spec(1, true)]);
        sb.write("keyring.txt", kr.as_bytes());
        let locked = kr.lines().find(|l| l.starts_with("PrivateKey = ")).map(|l| l[13..].to_string()).unwrap_or_default();
        let input: Vec<u8> = match s.op {
            Op::Decrypt => rf::write_key_file(&rf::KeyParams { s_priv: &w.sks[0], s_pub_claimed: &pubs[0], e_priv: &e, e_pub: &rp::x25519_base(&e), recipient: &pubs[1], payload_key: &payload }, &pt, &crate::gen::full_chunking(pt.len(), 65536)),
            Op::PassDecrypt => rf::write_pass_file(&crate::ops::ref_scrypt_cached(w.file_pw.as_bytes(), &fsalt), &fsalt, &pt, &crate::gen::full_chunking(pt.len(), 65536)),
            Op::KeyGenerate => b"shim-key-0001\n".to_vec(),
            _ => pt.clone(),
        };
        sb.write("input.bin", &input);
        let data_op = matches!(s.op, Op::Encrypt | Op::Decrypt | Op::PassEncrypt | Op::PassDecrypt);
        let mut args: Vec<String> = match s.op {
            Op::Encrypt => vec!["encrypt".into(), "-t".into(), w.names[1].clone(), "-f".into(), w.names[0].clone(), "-k".into(), "keyring.txt".into()],
            Op::Decrypt => vec!["decrypt".into(), "-t".into(), w.names[1].clone(), "-k".into(), "keyring.txt".into()],
            Op::PassEncrypt => vec!["password".into(), "encrypt".into()],
            Op::PassDecrypt => vec!["password".into(), "decrypt".into()],
            Op::ExtractPub => vec!["key".into(), "extract-pub".into(), locked.clone()],
            Op::ChangePass => vec!["key".into(), "change-pass".into(), locked.clone()],
            Op::KeyGenerate => vec!["key".into(), "generate".into()],
            Op::Help => vec![if s.seed % 2 == 0 { "--help".into() } else { "--version".into() }],
        };
        if s.op != Op::Help {
            args.push("--env-pass".into());
        }
        if data_op && s.in_file {
            args.push("input.bin".into());
        }
        if s.out_opt {
            args.extend(["-o".into(), "output.bin".into()]);
        }
        let refs: Vec<&str> = args.iter().map(|a| a.as_str()).collect();
        let pw = match s.op {
            Op::Encrypt | Op::ExtractPub | Op::ChangePass => w.pws[0].clone(),
            Op::Decrypt => w.pws[1].clone(),
            _ => w.file_pw.clone(),
        };
        let mut inv = Invocation::new(&refs).env("KESTREL_PASSWORD", &pw).env("KESTREL_NEW_PASSWORD", "new-pw");
        if (data_op && !s.in_file) || s.op == Op::KeyGenerate {
            inv.stdin = Stdin::File("input.bin".into());
        }
        inv.entropy_seed = Some(s.seed ^ 0x55);
        inv.fault_plan = Some(plan_string(&s.rules));
        let fin = run(&sb, &inv);
        let log = String::from_utf8_lossy(&fin.shim_log).to_string();
        let injected: Vec<i32> = log.lines().filter(|l| l.contains("inject errno=")).filter_map(|l| l.rsplit('=').next().and_then(|x| x.trim().parse().ok())).collect();
        let stderr_faulted = log.lines().any(|l| l.starts_with("w err") && l.contains("inject"));
        let hard = injected.iter().any(|e| *e != EINTR);
        let eintr = injected.iter().any(|e| *e == EINTR);
        let capped = log.lines().filter(|l| l.ends_with("capped")).count();
        for e in &injected {
            out.count(&format!("fault.syscall.errno{}", e), 1);
        }
        out.count("fault.syscall.short_transfer", capped as u64);
        let stderr = fin.stderr_text();
        let what = format!("{:?} in_file={} out_opt={} plan={}", s.op, s.in_file, s.out_opt, plan_string(&s.rules));
        let output: Vec<u8> = if s.out_opt { sb.read("output.bin").unwrap_or_default() } else { fin.stdout.clone() };
        let code = match fin.status {
            Status::Exit(c) => c,
            ref other => {
                out.violations.push(viol("C12", "abnormal_termination_under_syscall_fault", format!("{}: {:?}", what, other)));
                -1
            }
        };
        if code == 101 && stderr_faulted {
            // eprint!/eprintln! panic when stderr cannot be written
            out.violations.push(viol("C12", "exit_101_stderr_print_failure", format!("{}: a write to stderr failed (errno {:?}) and the tool exited 101 instead of 0 or 1", what, injected)));
            // the same defect is a panic, which C09 rules out whatever the tool is started with
            out.violations.push(viol("C09", "panic_when_stderr_unwritable", format!("{}: a write to stderr failed (errno {:?}) and the tool panicked (exit 101)", what, injected)));
        } else if code != 0 && code != 1 && code != -1 {
            if code == 101 || fin.panicked() {
                out.violations.push(viol("C09", "panic_under_io_failure", format!("{}: the tool panicked (exit {}) when a system call failed (injected errnos {:?}): {}", what, code, injected, stderr.chars().take(240).collect::<String>())));
            }
            let on_stdout_text = !data_op && injected.iter().any(|_| true) && stderr.contains("failed printing to stdout");
            out.violations.push(viol(
                "C12",
                if on_stdout_text { "exit_101_stdout_print_failure" } else { "exit_status_not_0_or_1_under_syscall_fault" },
                format!("{}: exit {} (injected errnos {:?}): {}", what, code, injected, stderr.chars().take(240).collect::<String>()),
            ));
        }
        if code == 1 && !fin.has_error_line() && !stderr_faulted {
            out.violations.push(viol("C12", "failure_without_error_line", format!("{}: exit 1 without 'Error:'", what)));
        }
        // completion, by operation
        let completed = match s.op {
            Op::Decrypt | Op::PassDecrypt => output == pt,
            Op::Encrypt => {
                let v = rf::accept_key_file(&output, &w.sks[1], &pubs[1]);
                v.chunks.accepted() && v.chunks.plaintext() == pt && v.sender == Some(pubs[0])
            }
            Op::PassEncrypt => {
                let p = w.file_pw.clone();
                let v = rf::accept_pass_file(&output, &mut |salt| crate::ops::ref_scrypt_cached(p.as_bytes(), salt));
                v.accepted() && v.plaintext() == pt
            }
            Op::ExtractPub => String::from_utf8_lossy(&output).trim() == format!("PublicKey = {}", rk::encode_pk(&pubs[0])),
            Op::ChangePass => String::from_utf8_lossy(&output).lines().find(|l| l.starts_with("PrivateKey = ")).and_then(|l| rk::unlock_with(l[13..].trim(), &mut |salt| crate::ops::ref_scrypt_cached(b"new-pw", salt))) == Some(w.sks[0]),
            Op::KeyGenerate => rk::parse(&String::from_utf8_lossy(&output)).map(|e| e.len() == 1 && e[0].name == "shim-key-0001").unwrap_or(false),
            Op::Help => !output.is_empty(),
        };
        if code == 0 && !completed {
            out.violations.push(viol("C12", "exit_0_without_completion_under_syscall_fault", format!("{}: exit 0 but the result is incomplete or wrong ({} bytes; injected {:?}, {} short transfers)", what, output.len(), injected, capped)));
        }
        if code == 0 && hard {
            out.violations.push(viol("C12", "hard_syscall_fault_swallowed", format!("{}: errno {:?} was injected but the tool exited 0", what, injected)));
            if data_op && !stderr_faulted {
                // C10 at process level: a failed read/write on the data path must surface as an error
                out.violations.push(viol("C10", "cli_io_failure_not_reported", format!("{}: errno {:?} was injected on the data path but the tool exited 0", what, injected)));
            }
        }
        if code == 0 && !completed && data_op && !stderr_faulted {
            out.violations.push(viol("C10", "cli_result_depends_on_transfer_sizes", format!("{}: exit 0 with a wrong or incomplete result under {} short transfers and errnos {:?}", what, capped, injected)));
        }
        if code == 1 && !hard && !eintr {
            out.violations.push(viol("C12", "spurious_failure_under_short_transfers", format!("{}: no error was injected (only {} short transfers) but the tool failed: {}", what, capped, stderr.chars().take(200).collect::<String>())));
        }
        // what has been written is a prefix of the fault-free output (decryption: of the plaintext)
        if matches!(s.op, Op::Decrypt | Op::PassDecrypt) && !pt.starts_with(&output) {
            out.violations.push(viol("C13", "output_not_a_prefix_under_syscall_fault", format!("{}: the output ({} bytes) is not a prefix of the plaintext", what, output.len())));
        }
        // a failed open of the output path must leave nothing behind
        if s.out_opt && s.rules.iter().any(|r| r.op == 'o' && r.class == "f=output.bin") && injected.iter().any(|e| *e == EACCES || *e == ENOSPC) && log.contains("o f=output.bin") && log.lines().any(|l| l.starts_with("o f=output.bin") && l.contains("inject")) && sb.exists("output.bin") {
            out.violations.push(viol("C13", "output_exists_after_failed_create", format!("{}: creating the output failed but the path exists", what)));
        }
        out.trace_hash = fin.digest();
        out.steps = log.lines().count() as u64;
        out.count("probe.runs_with_injected_error", (!injected.is_empty()) as u64);
        out.count("probe.runs_with_short_transfers", (capped > 0) as u64);
        out.signature = format!("b5|{:?}|{}|{}|{}|e{:?}|c{}|x{}", s.op, s.in_file, s.out_opt, crate::gen::len_class(s.plain.len, 65536), injected, (capped > 0), code);
        out.nontrivial = !injected.is_empty() || capped > 0;
        out
    }
    fn shrink(&self, s: &Scn) -> Vec<Scn> {
        let mut c = vec![];
        for i in 0..s.rules.len() {
            let mut t = s.clone();
            t.rules.remove(i);
            c.push(t);
        }
        if s.plain.len > 0 {
            let mut t = s.clone();
            t.plain.len /= 2;
            c.push(t);
        }
        c
    }
    fn real_components(&self) -> Vec<&'static str> {
        vec!["the kestrel binary built from the working tree, dynamically linked, with std's Read/Write/File over the libc read/write/open entry points"]
    }
    fn simulated_components(&self) -> Vec<&'static str> {
        vec!["the kernel's answers to read/write/open on stdin, stdout, the input path and the output path (LD_PRELOAD shim: per-call caps and errno injection, every call logged)", "the invoking shell", "seeded OS entropy"]
    }
}

//! Family A5 "freshness history": sequences of operations with randomness left to the
//! implementation and *identical inputs repeated on purpose*, on the entropy seam (logged,
//! never-repeating stream) and on the real OS RNG. Decides C07 together with the online seal
//! monitor that also runs in A1/A2.

use crate::engine::*;
use crate::hx::{to_hex, Hx};
use crate::keyring::Keyring;
use crate::ops::*;
use crate::refmodel::{format as rf, keyring as rk, prims as rp};
use crate::rng::Rng;
use crate::seams::*;
use kestrel_crypto::PrivateKey;
use serde::{Deserialize, Serialize};

#[derive(Serialize, Deserialize, Clone, Debug, PartialEq)]
pub enum Op {
    /// key_encrypt(None, None, None) with the scenario's fixed keys and plaintext
    KeyEncrypt,
    /// PrivateKey::generate()
    Generate,
    /// what `kestrel password encrypt` does: salt = secure_random(32); pass_encrypt(..., salt)
    PassEncrypt,
    /// what `key generate` / `change-pass` do: salt = secure_random(32); lock_private_key(sk, pw, salt)
    Lock,
}

#[derive(Serialize, Deserialize, Clone, Debug)]
pub struct Scn {
    pub s_priv: Hx,
    pub r_priv: Hx,
    pub plain: Plain,
    pub password: Hx,
    pub ops: Vec<Op>,
    pub caps: Vec<usize>,
    /// None = the real OS RNG (verdict-level replay only)
    pub entropy_tag: Option<u64>,
}

pub struct A5;

/// Secrets produced from the real OS RNG anywhere in this process, by any worker thread. A repeat
/// across operations has probability 2^-256 with a working generator.
static OS_RNG_SECRETS: std::sync::Mutex<std::collections::BTreeSet<(u8, Vec<u8>)>> = std::sync::Mutex::new(std::collections::BTreeSet::new());

impl Family for A5 {
    type Scenario = Scn;
    fn name(&self) -> &'static str {
        "a5"
    }
    fn properties(&self) -> &'static [&'static str] {
        &["C07"]
    }
    fn budget(&self, tier: Tier, _p: &str) -> u64 {
        match tier {
            Tier::Quick => 3000,
            Tier::Thorough => 100000,
        }
    }
    fn generate(&self, rng: &mut Rng, _tier: Tier, _idx: u64) -> Scn {
        let n = rng.range(2, 12) as usize;
        let mut ops = vec![];
        // scrypt-bound operations are rare
        let heavy = rng.chance(1, 40);
        for _ in 0..n {
            ops.push(match rng.below(20) {
                0..=11 => Op::KeyEncrypt,
                12..=17 => Op::Generate,
                18 if heavy => Op::PassEncrypt,
                19 if heavy => Op::Lock,
                _ => Op::KeyEncrypt,
            });
        }
        let len = *rng.pick(&[0usize, 1, 5, 40, 300]);
        Scn {
            s_priv: Hx(rng.bytes(32)),
            r_priv: Hx(rng.bytes(32)),
            plain: Plain { len, fill_seed: rng.next_u64() },
            password: Hx(crate::gen::gen_password(rng)),
            ops,
            caps: if rng.chance(1, 2) { vec![] } else { vec![1 + rng.usize_below(100)] },
            entropy_tag: if rng.chance(3, 4) { Some(rng.next_u64()) } else { None },
        }
    }

    fn execute(&self, s: &Scn) -> RunOut {
        let mut out = RunOut::default();
        out.props = vec!["C07"];
        let trace = Trace::new(500_000, false);
        let ent = s.entropy_tag.map(|t| install_entropy(t, trace.clone()));
        let seal = install_seal_observer(trace.clone());
        let pt = s.plain.bytes();
        let r = s.r_priv.a32();
        let rpub = pubkey_of(&r);
        // secrets seen so far, by kind
        let mut seen: Vec<(&'static str, usize, Vec<u8>)> = vec![];
        let mut drawn_before: Vec<Vec<u8>> = vec![];
        let mode = Mode::Key { s_priv: s.s_priv.clone(), r_priv: s.r_priv.clone(), e_priv: None, payload: None, omit_e_pub: false };
        for (oi, op) in s.ops.iter().enumerate() {
            let draws_start = ent.as_ref().map(|e| e.borrow().draws.len()).unwrap_or(0);
            let mut secrets: Vec<(&'static str, Vec<u8>)> = vec![];
            match op {
                Op::KeyEncrypt => {
                    let e = run_encrypt(&mode, &pt, &ReadScript { caps: s.caps.clone(), faults: vec![] }, &WriteScript::default(), &trace);
                    if !e.outcome.is_ok() {
                        out.violations.push(viol("C07", "encrypt_failed", format!("op {}: {:?}", oi, e.outcome)));
                        continue;
                    }
                    let v = rf::accept_key_file(&e.sink, &r, &rpub);
                    if !v.chunks.accepted() {
                        out.violations.push(viol("C07", "reference_rejects_file", format!("op {}: {:?}", oi, v.chunks.reject)));
                        continue;
                    }
                    // within the file: counter fields 0..n-1 (each chunk authenticates under its position by construction of the reader)
                    if !v.chunks.recs.iter().enumerate().all(|(i, r)| r.counter == i as u64) {
                        out.violations.push(viol("C07", "chunk_counters", format!("op {}: counter fields are not 0,1,..,n-1", oi)));
                    }
                    secrets.push(("ephemeral public key", e.sink[4..36].to_vec()));
                    secrets.push(("payload key", v.payload_key.unwrap().to_vec()));
                    secrets.push(("file key", v.file_key.unwrap().to_vec()));
                    if let Some(en) = &ent {
                        let en = en.borrow();
                        let mine = &en.draws[draws_start..];
                        let eph_ok = mine.iter().any(|d| d.len() == 32 && rp::x25519_base(&{ let mut a = [0u8; 32]; a.copy_from_slice(d); a }).to_vec() == e.sink[4..36]);
                        let pay_ok = mine.iter().any(|d| d[..] == v.payload_key.unwrap()[..]);
                        if !eph_ok {
                            out.violations.push(viol("C07", "ephemeral_not_from_this_operations_entropy", format!("op {}: the ephemeral key is not derived from entropy drawn during this encryption ({} draws)", oi, mine.len())));
                        }
                        if !pay_ok {
                            out.violations.push(viol("C07", "payload_key_not_from_this_operations_entropy", format!("op {}: the payload key was not drawn during this encryption ({} draws)", oi, mine.len())));
                        }
                    }
                }
                Op::Generate => {
                    let g = run_guarded(PrivateKey::generate);
                    match g {
                        Guarded::Returned(k) => secrets.push(("private key", k.as_bytes().to_vec())),
                        _ => out.violations.push(viol("C07", "generate_failed", format!("op {}", oi))),
                    }
                }
                Op::PassEncrypt => {
                    let salt: [u8; 32] = kestrel_crypto::secure_random(32).try_into().unwrap();
                    let m = Mode::Pass { password: s.password.clone(), salt: Hx(salt.to_vec()) };
                    let e = run_encrypt(&m, &pt, &ReadScript::default(), &WriteScript::default(), &trace);
                    if e.outcome.is_ok() && e.sink.len() >= 36 {
                        secrets.push(("salt", e.sink[4..36].to_vec()));
                        secrets.push(("file key", ref_scrypt_cached(&s.password.0, &salt).to_vec()));
                    } else {
                        out.violations.push(viol("C07", "encrypt_failed", format!("op {}: {:?}", oi, e.outcome)));
                    }
                }
                Op::Lock => {
                    let salt: [u8; 32] = kestrel_crypto::secure_random(32).try_into().unwrap();
                    let sk = PrivateKey::try_from(&s.s_priv.0[..]).unwrap();
                    let locked = Keyring::lock_private_key(&sk, &s.password.0, salt);
                    match rk::parse_locked(locked.as_str()) {
                        Some((sl, _)) => secrets.push(("salt", sl.to_vec())),
                        None => out.violations.push(viol("C07", "locked_key_unparseable", format!("op {}", oi))),
                    }
                }
            }
            for (kind, val) in secrets {
                if let Some((_, prev, _)) = seen.iter().find(|(k, _, v)| *k == kind && *v == val) {
                    out.violations.push(viol("C07", "secret_repeated", format!("op {} ({:?}) produced the same {} as op {}: {}", oi, op, kind, prev, to_hex(&val[..8]))));
                }
                if drawn_before.iter().any(|d| *d == val) && kind != "ephemeral public key" {
                    out.violations.push(viol("C07", "secret_from_earlier_entropy", format!("op {}: {} equals a value drawn from the entropy source by an earlier operation", oi, kind)));
                }
                if s.entropy_tag.is_none() {
                    let tagk = kind.as_bytes()[0];
                    let fresh = OS_RNG_SECRETS.lock().unwrap().insert((tagk, val.clone()));
                    if !fresh && !seen.iter().any(|(k, _, v)| *k == kind && *v == val) {
                        out.violations.push(viol("C07", "secret_repeated_across_threads", format!("op {} ({:?}): this {} was already produced by another operation history in this process (another thread or an earlier history) although it comes from the OS RNG", oi, op, kind)));
                    }
                }
                seen.push((kind, oi, val));
            }
            if let Some(en) = &ent {
                let en = en.borrow();
                for d in &en.draws[draws_start..] {
                    drawn_before.push(d.clone());
                }
                let need = match op {
                    Op::KeyEncrypt => 64,
                    _ => 32,
                };
                let got: usize = en.draws[draws_start..].iter().map(|d| d.len()).sum();
                if got < need {
                    out.violations.push(viol("C07", "too_little_entropy", format!("op {} ({:?}) drew {} bytes of entropy, its secrets need {}", oi, op, got, need)));
                }
            }
        }
        remove_entropy();
        remove_seal_observer();
        if let Some(r) = seal.borrow().reuse.clone() {
            out.violations.push(viol("C07", "nonce_reuse", r));
        }
        let t = trace.borrow();
        // with the real OS RNG the trace contains fresh values: only the verdict replays
        out.trace_hash = if s.entropy_tag.is_some() { t.hash } else { 0 };
        out.steps = t.seq;
        out.count("probe.os_rng_history", s.entropy_tag.is_none() as u64);
        out.count("probe.seals_observed", seal.borrow().seals);
        out.count("probe.repeated_identical_operations", (s.ops.windows(2).filter(|w| w[0] == w[1]).count()) as u64);
        let kinds: String = s.ops.iter().map(|o| match o { Op::KeyEncrypt => 'K', Op::Generate => 'G', Op::PassEncrypt => 'P', Op::Lock => 'L' }).collect();
        out.signature = format!("a5|{}|{}|{}", kinds, if s.entropy_tag.is_some() { "seam" } else { "os" }, s.plain.len);
        out.nontrivial = s.ops.len() >= 2;
        out
    }

    fn shrink(&self, s: &Scn) -> Vec<Scn> {
        let mut c = vec![];
        for i in 0..s.ops.len() {
            if s.ops.len() > 2 {
                let mut t = s.clone();
                t.ops.remove(i);
                c.push(t);
            }
        }
        if s.plain.len > 0 {
            let mut t = s.clone();
            t.plain.len = 0;
            c.push(t);
        }
        c
    }
    fn real_components(&self) -> Vec<&'static str> {
        vec!["kestrel-crypto (working tree): key_encrypt/pass_encrypt with randomness left to the implementation, PrivateKey::generate, secure_random", "src/cli/src/keyring.rs lock_private_key (compiled from the working tree)", "getrandom (in the OS-RNG configuration)"]
    }
    fn simulated_components(&self) -> Vec<&'static str> {
        vec!["OS entropy (seeded never-repeating stream, every draw logged) in 3 of 4 histories", "Read/Write seams", "reference reader recovering payload and file keys"]
    }
}

//! Family B6 "argv and garbage artefacts": the kestrel binary started with argument vectors
//! over the CLI vocabulary (all vectors of length <= 2 in the thorough tier, a seeded sample of
//! length <= 6), stdin /dev/null and no terminal, and with garbage or truncated files given as
//! input, keyring or PRIVATE-KEY argument. Oracle: exit status 0 or 1, an 'Error:' line when
//! it is 1, never a panic, signal or timeout. The CLI clause of C09.

use crate::cli::*;
use crate::engine::*;
use crate::fam::b1::world;
use crate::refmodel::{format as rf, prims as rp};
use crate::rng::Rng;
use serde::{Deserialize, Serialize};

#[derive(Serialize, Deserialize, Clone, Debug)]
pub struct Scn {
    /// indices into the vocabulary (see vocab())
    pub argv: Vec<usize>,
    pub seed: u64,
    pub env_password: Option<String>,
    pub env_keyring: bool,
    /// storage fault on the artefacts lying in the sandbox: 0 none, 1 truncated ciphertext,
    /// 2 random bytes as ciphertext, 3 garbage keyring, 4 truncated keyring, 5 binary keyring
    pub artefact_fault: u8,
    pub fault_arg: u32,
}

pub struct B6;

pub fn vocab(w: &crate::fam::b1::World, locked: &str) -> Vec<Vec<u8>> {
    let mut v: Vec<Vec<u8>> = [
        "encrypt", "enc", "decrypt", "dec", "key", "generate", "gen", "change-pass", "extract-pub", "password", "pass", "-t", "--to", "-f", "--from", "-o", "--output", "-k", "--keyring", "-h", "--help", "-v", "--version", "--env-pass", "--", "-", "", "-x", "--bogus", "-t=x", "--to=", "ct.ktl", "pt.txt", "keyring.txt", "missing.file", "out.bin", ".", "/dev/null",
    ]
    .iter()
    .map(|s| s.as_bytes().to_vec())
    .collect();
    v.push(w.names[0].as_bytes().to_vec());
    v.push(w.names[1].as_bytes().to_vec());
    v.push(locked.as_bytes().to_vec());
    v.push(locked.as_bytes()[..locked.len() - 3].to_vec());
    v.push(vec![0xff, 0xfe, b'x']); // not UTF-8
    v.push("é∑".as_bytes().to_vec());
    v
}

impl Family for B6 {
    type Scenario = Scn;
    fn name(&self) -> &'static str {
        "b6"
    }
    fn properties(&self) -> &'static [&'static str] {
        &["C09"]
    }
    fn budget(&self, tier: Tier, _p: &str) -> u64 {
        match tier {
            Tier::Quick => 1200,
            Tier::Thorough => 12000,
        }
    }
    fn generate(&self, rng: &mut Rng, tier: Tier, idx: u64) -> Scn {
        let nv = 44usize;
        let argv: Vec<usize> = if tier == Tier::Thorough && idx < (1 + nv + nv * nv) as u64 {
            // every argument vector of length 0, 1 and 2
            let i = idx as usize;
            if i == 0 {
                vec![]
            } else if i <= nv {
                vec![i - 1]
            } else {
                vec![(i - 1 - nv) / nv, (i - 1 - nv) % nv]
            }
        } else if idx < 45 {
            if idx == 0 { vec![] } else { vec![idx as usize - 1] }
        } else if rng.chance(2, 5) {
            // a complete, valid command line with at most one token replaced, dropped or added:
            // reaches the deep paths (unlock, decrypt) on the damaged artefacts
            let templates: [&[usize]; 12] = [
                // valid commands whose -o value has no file-name component ('.', '', '/dev/null')
                &[2, 31, 11, 39, 17, 33, 23, 15, 36],
                &[0, 32, 11, 38, 13, 39, 17, 33, 23, 15, 36],
                &[9, 0, 32, 15, 36, 23],
                &[9, 0, 32, 15, 26, 23],
                &[9, 2, 31, 23, 15, 37],
                &[2, 31, 11, 39, 17, 33, 23],
                &[2, 31, 11, 39, 17, 33, 23, 15, 35],
                &[0, 32, 11, 38, 13, 39, 17, 33, 23, 15, 35],
                &[4, 8, 40, 23],
                &[4, 7, 40, 23],
                &[9, 2, 31, 23],
                &[9, 0, 32, 15, 35, 23],
            ];
            let mut a: Vec<usize> = templates[rng.usize_below(12)].to_vec();
            match rng.below(5) {
                0 => {
                    let i = rng.usize_below(a.len());
                    a[i] = rng.usize_below(nv);
                }
                1 => {
                    let i = rng.usize_below(a.len());
                    a.remove(i);
                }
                2 => {
                    let i = rng.usize_below(a.len() + 1);
                    a.insert(i, rng.usize_below(nv));
                }
                _ => {}
            }
            a
        } else {
            // command-shaped prefixes followed by random vocabulary
            let mut a: Vec<usize> = match rng.below(8) {
                0 => vec![0],
                1 => vec![2],
                2 => vec![4, 5],
                3 => vec![4, 7],
                4 => vec![4, 8],
                5 => vec![9, 0],
                6 => vec![9, 2],
                _ => vec![],
            };
            let n = rng.range(1, 5) as usize;
            for _ in 0..n {
                a.push(rng.usize_below(nv));
            }
            a
        };
        Scn {
            argv,
            seed: rng.next_u64(),
            env_password: match rng.below(3) {
                0 => None,
                1 => Some("recipient-password".into()),
                _ => Some("wrong".into()),
            },
            env_keyring: rng.chance(1, 2),
            artefact_fault: rng.below(6) as u8,
            fault_arg: rng.below(1000) as u32,
        }
    }
    fn execute(&self, s: &Scn) -> RunOut {
        let mut out = RunOut::default();
        out.props = vec!["C09"];
        let mut w = world(s.seed % 4); // small pool of key worlds: the reference scrypt cache hits
        w.pws[1] = "recipient-password".into();
        let pubs: Vec<[u8; 32]> = w.sks.iter().map(rp::x25519_base).collect();
        let mut r = Rng::new(s.seed ^ 0xB6);
        let sb = Sandbox::new("b6");
        let spec = |i: usize, p: bool| KeySpec { name: w.names[i].clone(), sk: w.sks[i], password: if p { Some(w.pws[i].clone()) } else { None }, salt: w.salts[i] };
        let mut kr = keyring_text(&[spec(1, true), spec(0, false)]).into_bytes();
        let locked = String::from_utf8_lossy(&kr).lines().find(|l| l.starts_with("PrivateKey = ")).map(|l| l[13..].to_string()).unwrap_or_default();
        let (e, payload) = (r.arr32(), r.arr32());
        let pt = r.bytes(300);
        let mut ct = rf::write_key_file(&rf::KeyParams { s_priv: &w.sks[0], s_pub_claimed: &pubs[0], e_priv: &e, e_pub: &rp::x25519_base(&e), recipient: &pubs[1], payload_key: &payload }, &pt, &[300]);
        match s.artefact_fault {
            1 => ct.truncate(s.fault_arg as usize % ct.len()),
            2 => ct = r.bytes(s.fault_arg as usize % 400),
            3 => kr = b"[Key]\nName\nPublicKey = x\n\xf0\x9f\x94\x91 = ?\n".to_vec(),
            4 => kr.truncate(s.fault_arg as usize % kr.len()),
            5 => kr = r.bytes(s.fault_arg as usize % 300),
            _ => {}
        }
        sb.write("ct.ktl", &ct);
        sb.write("pt.txt", &pt);
        sb.write("keyring.txt", &kr);
        let vocab = vocab(&w, &locked);
        let args: Vec<Vec<u8>> = s.argv.iter().map(|i| vocab[*i % vocab.len()].clone()).collect();
        let mut inv = Invocation::new(&[]);
        inv.args = args.clone();
        if let Some(p) = &s.env_password {
            inv = inv.env("KESTREL_PASSWORD", p).env("KESTREL_NEW_PASSWORD", "new-password");
        }
        if s.env_keyring {
            inv = inv.env("KESTREL_KEYRING", "keyring.txt");
        }
        inv.entropy_seed = Some(s.seed);
        let fin = run(&sb, &inv);
        let shown: Vec<String> = args.iter().map(|a| String::from_utf8_lossy(a).chars().take(24).collect()).collect();
        let stderr = fin.stderr_text();
        match &fin.status {
            Status::Exit(0) => {}
            Status::Exit(1) => {
                if !fin.has_error_line() {
                    out.violations.push(viol("C09", "cli_exit_1_without_error_line", format!("argv {:?}: exit 1 but no line starting with 'Error:': {}", shown, stderr.chars().take(200).collect::<String>())));
                }
            }
            other => out.violations.push(viol("C09", "cli_abnormal_exit", format!("argv {:?} (artefact fault {}): {:?}: {}", shown, s.artefact_fault, other, stderr.chars().take(300).collect::<String>()))),
        }
        if fin.panicked() {
            out.violations.push(viol("C09", "cli_panicked", format!("argv {:?} (artefact fault {}): {}", shown, s.artefact_fault, stderr.chars().take(300).collect::<String>())));
        }
        out.trace_hash = fin.digest();
        out.steps = 1;
        out.count(&format!("probe.exit.{:?}", fin.status), 1);
        out.count(&format!("fault.artefact.{}", s.artefact_fault), 1);
        out.signature = format!("b6|{}|{}|{:?}", s.argv.iter().take(3).map(|i| i.to_string()).collect::<Vec<_>>().join("."), s.artefact_fault, fin.status);
        out.nontrivial = true;
        out
    }
    fn shrink(&self, s: &Scn) -> Vec<Scn> {
        let mut c = vec![];
        for i in (0..s.argv.len()).rev() {
            let mut t = s.clone();
            t.argv.remove(i);
            c.push(t);
        }
        if s.artefact_fault != 0 {
            let mut t = s.clone();
            t.artefact_fault = 0;
            c.push(t);
        }
        if s.env_password.is_some() {
            let mut t = s.clone();
            t.env_password = None;
            c.push(t);
        }
        c
    }
    fn real_components(&self) -> Vec<&'static str> {
        vec!["the kestrel binary built from the working tree (argument parsing in main.rs, every command)", "getopts"]
    }
    fn simulated_components(&self) -> Vec<&'static str> {
        vec!["the invoking shell: argument vectors over the CLI vocabulary incl. non-UTF-8, stdin /dev/null, no terminal", "storage faults on the ciphertext and keyring files in the sandbox"]
    }
}

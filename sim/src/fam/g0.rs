//! Family g0 "golden files": the two encrypted files kept in src/cli/tests (durable state
//! written by an earlier release, keys and passwords known from the smoke tests) must keep
//! decrypting under the working tree, under seeded read/write schedules. This part of C06 is a
//! fixed-vector check over varied schedules and is labelled as such.

use crate::engine::*;
use crate::gen::gen_caps;
use crate::hx::Hx;
use crate::ops::*;
use crate::refmodel::keyring as rk;
use crate::rng::Rng;
use crate::seams::*;
use serde::{Deserialize, Serialize};

#[derive(Serialize, Deserialize, Clone, Debug)]
pub struct Scn {
    pub pass_file: bool,
    pub rs: ReadScript,
    pub ws: WriteScript,
}

pub struct G0;

thread_local! {
    static BOB: std::cell::RefCell<Option<([u8; 32], [u8; 32])>> = const { std::cell::RefCell::new(None) };
}

/// (bob's private key, alice's public key) from the repository's test keyring, unlocked once per thread.
fn golden_keys() -> Option<([u8; 32], [u8; 32])> {
    if let Some(k) = BOB.with(|b| *b.borrow()) {
        return Some(k);
    }
    let kr = std::fs::read_to_string("/repo/src/cli/tests/keyring.txt").ok()?;
    let es = rk::parse(&kr)?;
    let alice = es.iter().find(|e| e.name == "alice")?;
    let bob = es.iter().find(|e| e.name == "bob")?;
    let sk = rk::unlock_with(bob.private.as_ref()?, &mut |salt| ref_scrypt_cached(b"bob", salt))?;
    let k = (sk, rk::decode_pk(&alice.public)?);
    BOB.with(|b| *b.borrow_mut() = Some(k));
    Some(k)
}

impl Family for G0 {
    type Scenario = Scn;
    fn name(&self) -> &'static str {
        "g0"
    }
    fn properties(&self) -> &'static [&'static str] {
        &["C06"]
    }
    fn budget(&self, tier: Tier, _p: &str) -> u64 {
        match tier {
            Tier::Quick => 400,
            Tier::Thorough => 4000,
        }
    }
    fn generate(&self, rng: &mut Rng, _tier: Tier, _idx: u64) -> Scn {
        let (r, _) = gen_caps(rng, 16);
        let (w, _) = gen_caps(rng, 4);
        // the password-mode file costs one scrypt per run
        Scn { pass_file: rng.chance(1, 20), rs: ReadScript { caps: r, faults: vec![] }, ws: WriteScript { caps: w, faults: vec![], flush_faults: vec![] } }
    }
    fn execute(&self, s: &Scn) -> RunOut {
        let mut out = RunOut::default();
        out.props = vec!["C06"];
        let trace = Trace::new(100_000, false);
        let (name, mode, want_sender) = if s.pass_file {
            ("pdata.txt.ktl", Mode::Pass { password: Hx(b"pass123".to_vec()), salt: Hx(vec![0; 32]) }, None)
        } else {
            match golden_keys() {
                Some((sk, alice)) => ("data.txt.ktl", Mode::Key { s_priv: Hx(vec![1; 32]), r_priv: Hx(sk.to_vec()), e_priv: None, payload: None, omit_e_pub: false }, Some(alice)),
                None => {
                    out.violations.push(viol("C06", "golden_keyring_unusable", "src/cli/tests/keyring.txt does not parse or bob's key does not unlock with 'bob'".into()));
                    return out;
                }
            }
        };
        let f = std::fs::read(format!("/repo/src/cli/tests/{}", name)).unwrap_or_default();
        let d = run_decrypt(&mode, &f, &s.rs, &s.ws, &trace, None, None);
        match &d.outcome {
            Outcome::Ok(sender) => {
                if d.sink != b"plaintext." {
                    out.violations.push(viol("C06", "golden_file_wrong_plaintext", format!("{} decrypts to {} bytes, not to its known plaintext", name, d.sink.len())));
                }
                if let Some(a) = want_sender {
                    if sender.as_deref() != Some(&a[..]) {
                        out.violations.push(viol("C06", "golden_file_wrong_sender", format!("{} reports a sender other than alice", name)));
                    }
                }
            }
            o => out.violations.push(viol("C06", "golden_file_rejected", format!("{} (written by an earlier release) no longer decrypts: {:?}", name, o))),
        }
        let t = trace.borrow();
        out.trace_hash = t.hash;
        out.steps = t.seq;
        out.merge_fired(&t.fired);
        out.signature = format!("g0|{}|r{}|w{}", s.pass_file, crate::fam::a2::caps_class(&s.rs.caps), crate::fam::a2::caps_class(&s.ws.caps));
        out.nontrivial = !s.rs.caps.is_empty() || !s.ws.caps.is_empty();
        out
    }
    fn real_components(&self) -> Vec<&'static str> {
        vec!["kestrel-crypto (working tree): key_decrypt, pass_decrypt", "the golden files src/cli/tests/data.txt.ktl and pdata.txt.ktl, and keyring.txt"]
    }
    fn simulated_components(&self) -> Vec<&'static str> {
        vec!["Read/Write seams (seeded short reads and partial writes)", "reference unlock of the recipient key"]
    }
}

//! Family B4 "password-change histories": `key change-pass` sequences over a set of passwords
//! (returning to earlier ones, the empty password, unicode, long), interleaved with
//! `key extract-pub` and, at the end, with encrypt/decrypt using the newest string; plus bit
//! rot on the PRIVATE-KEY argument. Oracle: reference unlock. Decides C16; CLI clause of C15.

use crate::cli::*;
use crate::engine::*;
use crate::hx::to_hex;
use crate::refmodel::{b64, keyring as rk, prims as rp};
use crate::rng::Rng;
use serde::{Deserialize, Serialize};

#[derive(Serialize, Deserialize, Clone, Debug, PartialEq)]
pub enum Step {
    /// change from the current password to this one
    ChangePass(String),
    ExtractPub,
    /// extract-pub of the newest string with an earlier password (index into the password history)
    TryOldPassword(usize),
    /// change-pass with a wrong old password: must fail and print no key
    ChangePassWrongOld(String),
    /// extract-pub of the newest string with a near-miss of the current password (appended newline,
    /// appended space, trimmed, CRLF): a different password, so it must be refused (C15)
    TryVariantPassword(u8),
    /// change-pass applied a second time to an EARLIER string of the history (a branch): its salt must
    /// be new as well
    ChangePassFromEarlier(usize, String),
    /// PRIVATE-KEY argument with one bit of the 84-byte blob flipped, or another text-level damage
    Damaged(u32, u8),
}

#[derive(Serialize, Deserialize, Clone, Debug)]
pub struct Scn {
    pub start_generated: bool,
    pub first_password: String,
    pub steps: Vec<Step>,
    pub seed: u64,
    pub use_at_end: bool,
    /// stdout of the key commands is a (pseudo-)terminal instead of a pipe
    #[serde(default)]
    pub tty_stdout: bool,
    /// about half of the invocations type their passwords at the prompt on a controlling terminal
    #[serde(default)]
    pub typed_pass: bool,
}

pub struct B4;

fn pw(rng: &mut Rng) -> String {
    match rng.below(14) {
        12 => "y".repeat(199) + "z",
        13 => "y".repeat(128),
        8 => "ends with newline\n".into(),
        9 => "crlf\r\n".into(),
        10 => "trailing space ".into(),
        11 => " \u{3000}".into(),
        0 => String::new(),
        1 => "a".into(),
        2 => "x".repeat(64),
        3 => "y".repeat(200),
        4 => "pässwörd-パスワード-🔑".into(),
        5 => "with spaces and = # [Key]".into(),
        _ => format!("pw{}", rng.below(1_000_000)),
    }
}

fn secret_forms(sk: &[u8; 32]) -> Vec<Vec<u8>> {
    let mut v = vec![sk.to_vec(), to_hex(sk).into_bytes(), to_hex(sk).to_uppercase().into_bytes()];
    // base64 at all three alignments (what a leak inside a larger base64 blob would look like)
    for pad in 0..3 {
        let mut b = vec![0u8; pad];
        b.extend_from_slice(sk);
        let e = b64::encode(&b);
        // drop the characters influenced by the padding bytes at both ends
        let core = e.trim_end_matches('=');
        let start = if pad == 0 { 0 } else { pad + 1 };
        if core.len() > start + 38 {
            v.push(core.as_bytes()[start..start + 38].to_vec());
        }
    }
    v
}

impl Family for B4 {
    type Scenario = Scn;
    fn name(&self) -> &'static str {
        "b4"
    }
    fn properties(&self) -> &'static [&'static str] {
        &["C16", "C15", "C07"]
    }
    fn budget(&self, tier: Tier, p: &str) -> u64 {
        let q = match p {
            "C16" => 100,
            "C15" => 60,
            _ => 20,
        };
        q * match tier {
            Tier::Quick => 1,
            Tier::Thorough => 15,
        }
    }
    fn generate(&self, rng: &mut Rng, _tier: Tier, _idx: u64) -> Scn {
        let n = rng.range(1, 6) as usize;
        let first_password = pw(rng);
        let mut history = vec![first_password.clone()];
        let mut steps = vec![];
        for _ in 0..n {
            // returning to an earlier password, and changing to the *same* password, on purpose
            let p = match rng.below(8) {
                0 | 1 => history[rng.usize_below(history.len())].clone(),
                2 | 3 => history[history.len() - 1].clone(),
                _ => pw(rng),
            };
            history.push(p.clone());
            steps.push(Step::ChangePass(p));
            match rng.below(8) {
                0 | 1 => steps.push(Step::ExtractPub),
                2 => steps.push(Step::TryOldPassword(rng.usize_below(history.len() - 1))),
                3 => steps.push(Step::ChangePassWrongOld(format!("{}-wrong", history[history.len() - 1]))),
                4 => steps.push(Step::Damaged(rng.below(672) as u32, rng.below(4) as u8)),
                5 => steps.push(Step::TryVariantPassword(rng.below(7) as u8)),
                6 => steps.push(Step::ChangePassFromEarlier(rng.usize_below(history.len()), pw(rng))),
                _ => {}
            }
        }
        // the newest string is put to use in a keyring at the end - always when its password is the empty one
        let use_at_end = rng.chance(1, 3) || history.last().map(|p| p.is_empty()).unwrap_or(false);
        let mut scn = Scn { start_generated: rng.chance(1, 2), first_password, steps, seed: rng.next_u64(), use_at_end, tty_stdout: rng.chance(1, 4), typed_pass: false };
        scn.typed_pass = (scn.seed >> 5) & 3 == 1; // derived, not drawn
        // a third of the histories end with a detour through a password that differs from the final one
        // only by surrounding white space (a pasted password): afterwards the padded one is an earlier,
        // different password and must have stopped working
        let mut t = scn.seed ^ 0x7061_6464;
        if crate::rng::splitmix(&mut t) % 3 == 0 {
            let last = history.last().cloned().unwrap_or_default();
            let padded = match crate::rng::splitmix(&mut t) % 4 {
                0 => format!("{} ", last),
                1 => format!(" {}", last),
                2 => format!("{}\n", last),
                _ => format!("\t{} ", last),
            };
            scn.steps.push(Step::ChangePass(padded));
            scn.steps.push(Step::ChangePass(last));
            scn.steps.push(Step::TryOldPassword(history.len()));
        }
        scn
    }
    fn execute(&self, s: &Scn) -> RunOut {
        let mut out = RunOut::default();
        out.props = vec!["C16", "C15", "C07"];
        let sb = Sandbox::new("b4");
        let mut r = Rng::new(s.seed);
        let mut th = 0u64;
        let mut inv_n = 0u64;
        let mut all_output: Vec<u8> = vec![];
        let mut run_inv = |inv: Invocation, th: &mut u64, all: &mut Vec<u8>| {
            let mut inv = inv;
            inv_n += 1;
            if s.tty_stdout && matches!(inv.stdout, Stdout::Capture) && inv.args.first().map(|a| a == b"key").unwrap_or(false) {
                inv.stdout = Stdout::Pty;
            }
            inv.entropy_seed = Some(s.seed ^ inv_n.wrapping_mul(0x9E3779B97F4A7C15));
            let mut t = s.seed ^ inv_n.wrapping_mul(0x7479_7065);
            inv.pass_via_tty = s.typed_pass && crate::rng::splitmix(&mut t) % 2 == 0;
            let fin = run(&sb, &inv);
            *th = th.rotate_left(13) ^ fin.digest();
            all.extend_from_slice(&fin.stdout);
            all.push(b'\n');
            all.extend_from_slice(&fin.stderr);
            all.push(b'\n');
            fin
        };
        // the key: generated by the tool, or given (locked by the reference)
        let (sk, mut current, pub_line): ([u8; 32], String, Option<String>) = if s.start_generated {
            // a shell that exports both variables globally: generation must use KESTREL_PASSWORD
            let mut inv = Invocation::new(&["key", "generate", "--env-pass"]).env("KESTREL_PASSWORD", &s.first_password).env("KESTREL_NEW_PASSWORD", "stray-new-password-for-a-later-change");
            inv.stdin = Stdin::Pipe(b"history-key\n".to_vec());
            let fin = run_inv(inv, &mut th, &mut all_output);
            let text = String::from_utf8_lossy(&fin.stdout).to_string();
            let entries = rk::parse(&text);
            match entries.as_ref().and_then(|e| e.first()) {
                Some(e) => {
                    let locked = e.private.clone().unwrap_or_default();
                    match rk::unlock_with(&locked, &mut |salt| crate::ops::ref_scrypt_cached(s.first_password.as_bytes(), salt)) {
                        Some(sk) => (sk, locked, Some(e.public.clone())),
                        None => {
                            out.violations.push(viol("C16", "generated_key_does_not_unlock", "the generated PrivateKey line does not unlock with its password".into()));
                            return out;
                        }
                    }
                }
                None => {
                    out.violations.push(viol("C16", "generate_failed", format!("{:?}: {}", fin.status, fin.stderr_text())));
                    return out;
                }
            }
        } else {
            let sk = r.arr32();
            let salt = r.arr32();
            (sk, rk::lock_with_key(&sk, &crate::ops::ref_scrypt_cached(s.first_password.as_bytes(), &salt), &salt), None)
        };
        let want_pub = rk::encode_pk(&rp::x25519_base(&sk));
        if let Some(p) = &pub_line {
            if *p != want_pub {
                out.violations.push(viol("C16", "generated_public_key_wrong", "the PublicKey line written at generation is not the public key of the private key".into()));
            }
        }
        let mut passwords = vec![s.first_password.clone()];
        let mut strings = vec![current.clone()];
        let mut salts: Vec<Vec<u8>> = rk::parse_locked(&current).map(|(s, _)| vec![s.to_vec()]).unwrap_or_default();
        for (i, st) in s.steps.iter().enumerate() {
            let cur_pw = passwords.last().unwrap().clone();
            match st {
                Step::ChangePass(newp) => {
                    let fin = run_inv(Invocation::new(&["key", "change-pass", &current, "--env-pass"]).env("KESTREL_PASSWORD", &cur_pw).env("KESTREL_NEW_PASSWORD", newp), &mut th, &mut all_output);
                    let so = String::from_utf8_lossy(&fin.stdout).to_string();
                    let line = so.lines().find(|l| l.starts_with("PrivateKey = ")).map(|l| l["PrivateKey = ".len()..].trim().to_string());
                    match (fin.status.clone(), line) {
                        (Status::Exit(0), Some(new_str)) => {
                            // newest string + newest password -> the original private key
                            match rk::unlock_with(&new_str, &mut |salt| crate::ops::ref_scrypt_cached(newp.as_bytes(), salt)) {
                                Some(k) if k == sk => {}
                                Some(_) => out.violations.push(viol("C16", "identity_lost", format!("step {}: after the password change the string unlocks to a different private key", i))),
                                None => out.violations.push(viol("C16", "new_password_does_not_unlock", format!("step {}: the new string does not unlock with the new password", i))),
                            }
                            match rk::parse_locked(&new_str) {
                                Some((salt, _)) => {
                                    if salt == [0u8; 32] {
                                        out.violations.push(viol("C07", "cli_salt_not_random", format!("step {}: the salt chosen by `key change-pass` is all zero", i)));
                                        out.violations.push(viol("C16", "salt_reused", format!("step {}: the salt is the constant 00..00", i)));
                                    }
                                    if salts.contains(&salt.to_vec()) {
                                        out.violations.push(viol("C16", "salt_reused", format!("step {}: the password change reused the salt {}", i, to_hex(&salt[..8]))));
                                        out.violations.push(viol("C07", "cli_change_pass_salt_reused", format!("step {}: `key change-pass` did not draw a fresh salt ({} seen before)", i, to_hex(&salt[..8]))));
                                    }
                                    salts.push(salt.to_vec());
                                }
                                None => out.violations.push(viol("C15", "cli_locked_format", format!("step {}: printed string is not base64(version || salt || 48 bytes)", i))),
                            }
                            // earlier passwords stop working unless equal (reference check, one earlier password)
                            if let Some(oldp) = passwords.iter().rev().find(|p| **p != *newp) {
                                if rk::unlock_with(&new_str, &mut |salt| crate::ops::ref_scrypt_cached(oldp.as_bytes(), salt)).is_some() {
                                    out.violations.push(viol("C16", "old_password_still_works", format!("step {}: the new string unlocks with the earlier password {:?}", i, oldp)));
                                }
                            }
                            current = new_str.clone();
                            strings.push(new_str);
                            passwords.push(newp.clone());
                        }
                        (st, l) => out.violations.push(viol("C16", "change_pass_failed", format!("step {}: {:?}, PrivateKey line present: {}; stderr {}", i, st, l.is_some(), fin.stderr_text()))),
                    }
                }
                Step::ExtractPub => {
                    let fin = run_inv(Invocation::new(&["key", "extract-pub", &current, "--env-pass"]).env("KESTREL_PASSWORD", &cur_pw), &mut th, &mut all_output);
                    let so = String::from_utf8_lossy(&fin.stdout).to_string();
                    if fin.status != Status::Exit(0) || so.trim() != format!("PublicKey = {}", want_pub) {
                        out.violations.push(viol("C16", "extract_pub_wrong", format!("step {}: {:?} printed {:?}, expected PublicKey = {}", i, fin.status, so.trim(), want_pub)));
                    }
                }
                Step::TryOldPassword(k) => {
                    let oldp = &passwords[*k % passwords.len()];
                    let fin = run_inv(Invocation::new(&["key", "extract-pub", &current, "--env-pass"]).env("KESTREL_PASSWORD", oldp), &mut th, &mut all_output);
                    let should_work = *oldp == cur_pw;
                    if should_work != (fin.status == Status::Exit(0)) {
                        out.violations.push(viol("C16", if should_work { "current_password_refused" } else { "old_password_still_works" }, format!("step {}: extract-pub with password {:?} (current {:?}) -> {:?}", i, oldp, cur_pw, fin.status)));
                    }
                    if !should_work && !fin.has_error_line() {
                        out.violations.push(viol("C16", "no_error_line", format!("step {}", i)));
                    }
                }
                Step::ChangePassFromEarlier(k, newp) => {
                    let k = *k % strings.len();
                    let fin = run_inv(Invocation::new(&["key", "change-pass", &strings[k], "--env-pass"]).env("KESTREL_PASSWORD", &passwords[k]).env("KESTREL_NEW_PASSWORD", newp), &mut th, &mut all_output);
                    let so = String::from_utf8_lossy(&fin.stdout).to_string();
                    if let Some(l) = so.lines().find(|l| l.starts_with("PrivateKey = ")) {
                        if let Some((salt, _)) = rk::parse_locked(l["PrivateKey = ".len()..].trim()) {
                            if salts.contains(&salt.to_vec()) {
                                out.violations.push(viol("C16", "salt_reused", format!("step {}: changing the password of an earlier string again produced a salt seen before ({})", i, to_hex(&salt[..8]))));
                                out.violations.push(viol("C07", "cli_change_pass_salt_reused", format!("step {}: a second change-pass on the same locked string did not draw a fresh salt", i)));
                            }
                            salts.push(salt.to_vec());
                        }
                    } else {
                        out.violations.push(viol("C16", "change_pass_failed", format!("step {}: change-pass on earlier string {}: {:?} {}", i, k, fin.status, fin.stderr_text())));
                    }
                }
                Step::TryVariantPassword(kind) => {
                    let variant = match kind {
                        0 => format!("{}\n", cur_pw),
                        1 => format!("{} ", cur_pw),
                        2 => cur_pw.trim_end().to_string(),
                        3 => format!("{}\r\n", cur_pw),
                        // a long password cut to a buffer size is a different password
                        5 if cur_pw.len() > 128 => cur_pw.chars().take(128).collect::<String>(),
                        6 if cur_pw.len() > 64 => format!("{}DIFFERENT-TAIL", cur_pw.chars().take(cur_pw.chars().count().saturating_sub(8)).collect::<String>()),
                        _ => cur_pw.trim().to_string(),
                    };
                    if variant == cur_pw {
                        continue;
                    }
                    let fin = run_inv(Invocation::new(&["key", "extract-pub", &current, "--env-pass"]).env("KESTREL_PASSWORD", &variant), &mut th, &mut all_output);
                    out.count("probe.near_miss_password_tried", 1);
                    if fin.status != Status::Exit(1) || !fin.stdout.is_empty() {
                        out.violations.push(viol("C15", "cli_other_password_unlocks", format!("step {}: a key locked under {:?} was unlocked by the different password {:?} ({:?})", i, cur_pw, variant, fin.status)));
                    }
                }
                Step::ChangePassWrongOld(wrong) => {
                    if *wrong == cur_pw {
                        continue;
                    }
                    let fin = run_inv(Invocation::new(&["key", "change-pass", &current, "--env-pass"]).env("KESTREL_PASSWORD", wrong).env("KESTREL_NEW_PASSWORD", "whatever"), &mut th, &mut all_output);
                    if fin.status != Status::Exit(1) || !fin.stdout.is_empty() || !fin.has_error_line() {
                        out.violations.push(viol("C16", "wrong_old_password_accepted", format!("step {}: change-pass with a wrong old password -> {:?}, stdout {} bytes", i, fin.status, fin.stdout.len())));
                    }
                }
                Step::Damaged(bit, how) => {
                    let blob = b64::decode(&current).unwrap_or_default();
                    let damaged = match how {
                        0 | 1 if blob.len() == 84 => {
                            let mut b = blob.clone();
                            b[(*bit as usize / 8) % 84] ^= 1 << (bit % 8);
                            b64::encode(&b)
                        }
                        2 => current[..current.len() - 1 - (*bit as usize % 20)].to_string(),
                        _ => format!("{}A", current),
                    };
                    let cmd = if bit % 2 == 0 { "extract-pub" } else { "change-pass" };
                    let fin = run_inv(Invocation::new(&["key", cmd, &damaged, "--env-pass"]).env("KESTREL_PASSWORD", &cur_pw).env("KESTREL_NEW_PASSWORD", "np"), &mut th, &mut all_output);
                    out.count("fault.cli_locked_key_damage", 1);
                    if fin.status != Status::Exit(1) || !fin.has_error_line() || !fin.stdout.is_empty() {
                        out.violations.push(viol("C15", "cli_damaged_key_accepted", format!("step {}: `key {}` with a damaged PRIVATE-KEY ({}) -> {:?}, stdout {:?}", i, cmd, if *how < 2 { "one bit flipped" } else { "truncated/extended" }, fin.status, String::from_utf8_lossy(&fin.stdout))));
                    }
                }
            }
        }
        // every earlier string still unlocks only with its own password (newest and one random earlier one)
        if strings.len() >= 2 {
            let k = r.usize_below(strings.len() - 1);
            if rk::unlock_with(&strings[k], &mut |salt| crate::ops::ref_scrypt_cached(passwords[k].as_bytes(), salt)) != Some(sk) {
                out.violations.push(viol("C16", "earlier_string_broken", format!("string {} no longer unlocks with its own password", k)));
            }
        }
        // use the newest string in a keyring
        if s.use_at_end {
            let kr = format!("[Key]\nName = me-myself-0001\nPublicKey = {}\nPrivateKey = {}\n", want_pub, current);
            sb.write("kr.txt", kr.as_bytes());
            sb.write("m.txt", b"after the password changes");
            let pwn = passwords.last().unwrap().clone();
            let enc = run_inv(Invocation::new(&["encrypt", "m.txt", "-t", "me-myself-0001", "-f", "me-myself-0001", "-o", "m.ktl", "-k", "kr.txt", "--env-pass"]).env("KESTREL_PASSWORD", &pwn), &mut th, &mut all_output);
            let dec = run_inv(Invocation::new(&["decrypt", "m.ktl", "-t", "me-myself-0001", "-o", "m.out", "-k", "kr.txt", "--env-pass"]).env("KESTREL_PASSWORD", &pwn), &mut th, &mut all_output);
            if enc.status != Status::Exit(0) || dec.status != Status::Exit(0) || sb.read("m.out").as_deref() != Some(b"after the password changes") {
                out.violations.push(viol("C16", "newest_string_not_usable", format!("enc {:?} dec {:?}: {} {}", enc.status, dec.status, enc.stderr_text(), dec.stderr_text())));
                out.violations.push(viol("C15", "cli_key_does_not_unlock_with_its_password", format!("a key locked under {:?} cannot be used by encrypt/decrypt with that password: {} {}", pwn, enc.stderr_text().chars().take(120).collect::<String>(), dec.stderr_text().chars().take(120).collect::<String>())));
            }
        }
        // the raw private key never appears in any output or file
        let mut hay = all_output.clone();
        for (_, _, _) in sb.listing() {}
        if let Ok(rd) = std::fs::read_dir(&sb.dir) {
            for e in rd.flatten() {
                hay.extend_from_slice(&std::fs::read(e.path()).unwrap_or_default());
                hay.push(b'\n');
            }
        }
        for form in secret_forms(&sk) {
            if hay.windows(form.len()).any(|w| w == &form[..]) {
                out.violations.push(viol("C16", "private_key_leaked", format!("the raw private key appears in an output (form of {} bytes)", form.len())));
            }
        }
        out.count("probe.cli_invocations", inv_n);
        out.count("probe.password_changes", (strings.len() - 1) as u64);
        out.trace_hash = th;
        out.steps = inv_n;
        out.count("probe.tty_stdout_histories", s.tty_stdout as u64);
        out.signature = format!("b4|{}{}|{}|{}", s.start_generated, if s.tty_stdout { "T" } else { "" }, s.steps.iter().map(|t| match t { Step::ChangePass(p) => if p.is_empty() { 'e' } else if !p.is_ascii() { 'u' } else if p.len() >= 64 { 'L' } else { 'c' }, Step::ExtractPub => 'x', Step::TryOldPassword(_) => 'o', Step::TryVariantPassword(_) => 'v', Step::ChangePassFromEarlier(..) => 'b', Step::ChangePassWrongOld(_) => 'w', Step::Damaged(..) => 'd' }).collect::<String>(), s.use_at_end);
        out.nontrivial = s.steps.len() >= 2;
        out
    }
    fn shrink(&self, s: &Scn) -> Vec<Scn> {
        let mut c = vec![];
        for i in (0..s.steps.len()).rev() {
            if s.steps.len() > 1 && !matches!(s.steps[i], Step::ChangePass(_)) {
                let mut t = s.clone();
                t.steps.remove(i);
                c.push(t);
            }
        }
        if s.steps.len() > 1 {
            let mut t = s.clone();
            t.steps.pop();
            c.push(t);
        }
        if s.use_at_end {
            let mut t = s.clone();
            t.use_at_end = false;
            c.push(t);
        }
        if s.typed_pass {
            let mut t = s.clone();
            t.typed_pass = false;
            c.push(t);
        }
        c
    }
    fn real_components(&self) -> Vec<&'static str> {
        vec!["the kestrel binary built from the working tree: key generate, key change-pass, key extract-pub, encrypt, decrypt"]
    }
    fn simulated_components(&self) -> Vec<&'static str> {
        vec!["the invoking shell (argv, KESTREL_PASSWORD / KESTREL_NEW_PASSWORD)", "bit rot and truncation on the PRIVATE-KEY argument", "seeded OS entropy, distinct per invocation", "reference unlock"]
    }
}

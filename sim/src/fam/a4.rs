//! Family A4 "parties": a multi-party world. Parties S, S', R, R' with pairwise distinct keys
//! and a carrier that misdelivers and recombines. Operations: honest encryption, encryption
//! with a claimed public key that does not match the private key used, reference-forged files
//! from every combination (private key used, public key claimed, recipient addressed),
//! handshake fields recombined across files, delivery to any party, small-order X25519
//! points as recipient / ephemeral / claimed static key. The oracle is evaluated over the
//! recorded history. Decides C05; the paired-run clause of C08 rides along.

use crate::engine::*;
use crate::hx::{from_hex, to_hex, Hx};
use crate::ops::*;
use crate::refmodel::{format as rf, noise as rn, prims as rp};
use crate::rng::Rng;
use crate::seams::*;
use kestrel_crypto::{AsymFileFormat, PayloadKey, PrivateKey, PublicKey};
use serde::{Deserialize, Serialize};

pub const SMALL_ORDER: [&str; 7] = [
    "0000000000000000000000000000000000000000000000000000000000000000",
    "0100000000000000000000000000000000000000000000000000000000000000",
    "e0eb7a7c3b41b8ae1656e3faf19fc46ada098deb9c32b1fd866205165f49b800",
    "5f9c95bca3508c24b1d0b1559c83ef5b04445cc4581c8e86d8224eddd09f1157",
    "ecffffffffffffffffffffffffffffffffffffffffffffffffffffffffffff7f",
    "edffffffffffffffffffffffffffffffffffffffffffffffffffffffffffff7f",
    "eeffffffffffffffffffffffffffffffffffffffffffffffffffffffffffff7f",
];

/// small-order point `i` (0..7), optionally in the non-canonical encoding with the top bit set
pub fn small_order(i: usize, high_bit: bool) -> [u8; 32] {
    let mut a = [0u8; 32];
    a.copy_from_slice(&from_hex(SMALL_ORDER[i % 7]).unwrap());
    if high_bit {
        a[31] |= 0x80;
    }
    a
}

#[derive(Serialize, Deserialize, Clone, Debug)]
pub enum Op {
    /// kestrel key_encrypt, sender party -> recipient party
    Honest { sender: usize, recipient: usize, plain: Plain, caps: Vec<usize> },
    /// kestrel key_encrypt with sender_public taken from another party
    Mismatch { sender_priv: usize, claimed: usize, recipient: usize, plain: Plain },
    /// file built by the reference writer from any combination
    Forge { priv_used: usize, claimed: usize, recipient: usize, plain: Plain, chunking: Vec<usize> },
    /// reference-forged file from public data only: ephemeral (and optionally the claimed static
    /// key) is a small-order point, the corresponding DH results are taken to be zero
    ForgeZero {
        point: usize,
        high_bit: bool,
        claimed_small: bool,
        claimed: usize,
        recipient: usize,
        plain: Plain,
        /// the forger is the claimed party itself: ss is the real static-static secret, only es is zero
        #[serde(default)]
        insider: bool,
        /// the forger leaves the ss step out altogether (what a reader that "mixes nothing" when the
        /// DH fails would accept)
        #[serde(default)]
        skip_ss: bool,
    },
    /// header of file `a` with field `field` (1 ephemeral, 2 encrypted static, 3 encrypted payload)
    /// or the whole chunk stream (4) taken from file `b`
    Recombine { a: usize, b: usize, field: usize },
    /// party `to` runs key_decrypt on file `file`; `pub_of` is whose public key is passed as recipient_public
    Deliver {
        file: usize,
        to: usize,
        pub_of: usize,
        caps: Vec<usize>,
        /// while this decryption is reading its input, the same party decrypts that other file on the same
        /// thread (a source that is itself fed by a decryption): results must not mix
        #[serde(default)]
        nested: Option<usize>,
    },
    /// kestrel key_encrypt to a small-order recipient key
    EncryptToSmallOrder { sender: usize, point: usize, high_bit: bool, plain: Plain },
    /// C08: the same plaintext, read script, ephemeral key and payload key under two identity pairs
    Paired { s1: usize, r1: usize, s2: usize, r2: usize, plain: Plain, caps: Vec<usize>, e: Hx, payload: Hx },
}

#[derive(Serialize, Deserialize, Clone, Debug)]
pub struct Scn {
    pub keys: Vec<Hx>,
    pub ops: Vec<Op>,
    pub entropy_tag: u64,
}

/// What the history knows about a stored file.
#[derive(Clone)]
struct FileFacts {
    bytes: Vec<u8>,
    /// Some((private key used for ss, claimed public key, recipient public key, plaintext)) when every
    /// handshake field and the chunk stream come from one construction
    coherent: Option<([u8; 32], [u8; 32], [u8; 32], Vec<u8>)>,
    /// false when a DH in the construction was forced to zero or fields were mixed
    legit_dh: bool,
}

pub struct A4;

fn pk(sk: &[u8; 32]) -> [u8; 32] {
    rp::x25519_base(sk)
}

fn kestrel_encrypt(s_priv: &[u8; 32], s_pub: &[u8; 32], r_pub: &[u8; 32], e: Option<(&[u8; 32], &[u8; 32])>, payload: Option<&[u8; 32]>, pt: &[u8], caps: &[usize], trace: &TraceRef) -> (Outcome, Vec<u8>, usize) {
    let mut src = ScriptedSource::new(pt, ReadScript { caps: caps.to_vec(), faults: vec![] }, trace.clone());
    let mut sink = ScriptedSink::new(WriteScript::default(), trace.clone());
    let g = run_guarded(|| {
        let s = PrivateKey::try_from(&s_priv[..]).unwrap();
        let spk = PublicKey::try_from(&s_pub[..]).unwrap();
        let rpk = PublicKey::try_from(&r_pub[..]).unwrap();
        let ek = e.map(|(p, _)| PrivateKey::try_from(&p[..]).unwrap());
        let epk = e.map(|(_, p)| PublicKey::try_from(&p[..]).unwrap());
        let pk = payload.map(|p| PayloadKey::new(p));
        kestrel_crypto::encrypt::key_encrypt(&mut src, &mut sink, &s, &spk, &rpk, ek.as_ref(), epk.as_ref(), pk.as_ref(), AsymFileFormat::V1)
    });
    let o = match g {
        Guarded::Returned(Ok(())) => Outcome::Ok(None),
        Guarded::Returned(Err(e)) => Outcome::Err(classify_enc(&e)),
        Guarded::Panicked(m) => Outcome::Panic(m),
        Guarded::Hang => Outcome::Hang,
    };
    (o, sink.accepted, sink.write_calls_total)
}

fn kestrel_decrypt(r_priv: &[u8; 32], r_pub: &[u8; 32], f: &[u8], caps: &[usize], trace: &TraceRef) -> (Outcome, Vec<u8>) {
    let mut src = ScriptedSource::new(f, ReadScript { caps: caps.to_vec(), faults: vec![] }, trace.clone());
    let mut sink = ScriptedSink::new(WriteScript::default(), trace.clone());
    let g = run_guarded(|| {
        let r = PrivateKey::try_from(&r_priv[..]).unwrap();
        let rpk = PublicKey::try_from(&r_pub[..]).unwrap();
        kestrel_crypto::decrypt::key_decrypt(&mut src, &mut sink, &r, &rpk, AsymFileFormat::V1).map(|p| p.as_bytes().to_vec())
    });
    let o = match g {
        Guarded::Returned(Ok(p)) => Outcome::Ok(Some(p)),
        Guarded::Returned(Err(e)) => Outcome::Err(classify_dec(&e)),
        Guarded::Panicked(m) => Outcome::Panic(m),
        Guarded::Hang => Outcome::Hang,
    };
    (o, sink.accepted)
}

/// key_decrypt of `f` from a source that, after 140 bytes have been handed out, runs a complete
/// key_decrypt of `inner` (same party, same thread) before it continues.
fn kestrel_decrypt_nested(r_priv: &[u8; 32], r_pub: &[u8; 32], f: &[u8], inner: &[u8], trace: &TraceRef) -> (Outcome, Vec<u8>) {
    struct Nesting<'a> {
        data: &'a [u8],
        pos: usize,
        inner: &'a [u8],
        done: bool,
        r_priv: [u8; 32],
        r_pub: [u8; 32],
    }
    impl<'a> std::io::Read for Nesting<'a> {
        fn read(&mut self, buf: &mut [u8]) -> std::io::Result<usize> {
            if !self.done && self.pos >= 132 {
                self.done = true;
                let r = PrivateKey::try_from(&self.r_priv[..]).unwrap();
                let rpk = PublicKey::try_from(&self.r_pub[..]).unwrap();
                let mut sink = Vec::new();
                let _ = kestrel_crypto::decrypt::key_decrypt(&mut &self.inner[..], &mut sink, &r, &rpk, AsymFileFormat::V1);
            }
            let n = buf.len().min(self.data.len() - self.pos);
            buf[..n].copy_from_slice(&self.data[self.pos..self.pos + n]);
            self.pos += n;
            Ok(n)
        }
    }
    let mut src = Nesting { data: f, pos: 0, inner, done: false, r_priv: *r_priv, r_pub: *r_pub };
    let mut sink = ScriptedSink::new(WriteScript::default(), trace.clone());
    let g = run_guarded(|| {
        let r = PrivateKey::try_from(&r_priv[..]).unwrap();
        let rpk = PublicKey::try_from(&r_pub[..]).unwrap();
        kestrel_crypto::decrypt::key_decrypt(&mut src, &mut sink, &r, &rpk, AsymFileFormat::V1).map(|p| p.as_bytes().to_vec())
    });
    let o = match g {
        Guarded::Returned(Ok(p)) => Outcome::Ok(Some(p)),
        Guarded::Returned(Err(e)) => Outcome::Err(classify_dec(&e)),
        Guarded::Panicked(m) => Outcome::Panic(m),
        Guarded::Hang => Outcome::Hang,
    };
    (o, sink.accepted)
}

/// Reference forgery with explicit DH results.
fn forge(e_pub: &[u8; 32], es: &[u8; 32], claimed: &[u8; 32], ss: &[u8; 32], recipient: &[u8; 32], payload: &[u8; 32], pt: &[u8], chunking: &[usize]) -> Vec<u8> {
    let mut sym = rn::Sym::init(&rf::MAGIC_KEY, recipient);
    let mut out = rf::MAGIC_KEY.to_vec();
    out.extend_from_slice(e_pub);
    sym.mix_hash(e_pub);
    sym.mix_key(es);
    let c = sym.encrypt_and_hash(claimed);
    out.extend_from_slice(&c);
    sym.mix_key(ss);
    let c = sym.encrypt_and_hash(payload);
    out.extend_from_slice(&c);
    let fk = rf::file_key(payload, &sym.h);
    rf::write_chunks(&mut out, &fk, &[], pt, chunking);
    out
}

/// Like `forge`, but the ss step can be omitted entirely.
fn forge_opt(e_pub: &[u8; 32], es: &[u8; 32], claimed: &[u8; 32], ss: Option<&[u8; 32]>, recipient: &[u8; 32], payload: &[u8; 32], pt: &[u8]) -> Vec<u8> {
    let mut sym = rn::Sym::init(&rf::MAGIC_KEY, recipient);
    let mut out = rf::MAGIC_KEY.to_vec();
    out.extend_from_slice(e_pub);
    sym.mix_hash(e_pub);
    sym.mix_key(es);
    let c = sym.encrypt_and_hash(claimed);
    out.extend_from_slice(&c);
    if let Some(ss) = ss {
        sym.mix_key(ss);
    }
    let c = sym.encrypt_and_hash(payload);
    out.extend_from_slice(&c);
    let fk = rf::file_key(payload, &sym.h);
    rf::write_chunks(&mut out, &fk, &[], pt, &crate::gen::full_chunking(pt.len(), 65536));
    out
}

impl Family for A4 {
    type Scenario = Scn;
    fn name(&self) -> &'static str {
        "a4"
    }
    fn properties(&self) -> &'static [&'static str] {
        &["C05", "C08"]
    }
    fn budget(&self, tier: Tier, p: &str) -> u64 {
        let q = if p == "C08" { 800 } else { 10000 };
        q * match tier {
            Tier::Quick => 1,
            Tier::Thorough => 30,
        }
    }
    fn generate(&self, rng: &mut Rng, _tier: Tier, _idx: u64) -> Scn {
        let keys: Vec<Hx> = (0..4).map(|_| Hx(rng.bytes(32))).collect();
        let nops = rng.range(4, 9) as usize;
        let mut ops: Vec<Op> = vec![];
        let mut nfiles = 0usize;
        let plain = |rng: &mut Rng| Plain { len: rng.usize_below(120), fill_seed: rng.next_u64() };
        let caps = |rng: &mut Rng| if rng.chance(1, 2) { vec![] } else { vec![1 + rng.usize_below(50)] };
        for k in 0..nops {
            // first operations create files, later ones mostly deliver
            let want_file = nfiles == 0 || (k < nops / 2 && rng.chance(2, 3)) || rng.chance(1, 4);
            if want_file {
                let op = match rng.below(12) {
                    0..=2 => Op::Honest { sender: rng.usize_below(2), recipient: 2 + rng.usize_below(2), plain: plain(rng), caps: caps(rng) },
                    3..=4 => {
                        let sp = rng.usize_below(4);
                        let mut cl = rng.usize_below(4);
                        if cl == sp {
                            cl = (cl + 1) % 4;
                        }
                        Op::Mismatch { sender_priv: sp, claimed: cl, recipient: rng.usize_below(4), plain: plain(rng) }
                    }
                    5..=6 => {
                        let p = plain(rng);
                        let m = 1 + rng.usize_below(64); let chunking = crate::gen::gen_chunking(rng, p.len, m);
                        Op::Forge { priv_used: rng.usize_below(4), claimed: rng.usize_below(4), recipient: rng.usize_below(4), plain: p, chunking }
                    }
                    7 => {
                        let insider = rng.chance(1, 3);
                        let claimed_small = !insider && rng.chance(1, 2);
                        Op::ForgeZero { point: rng.usize_below(7), high_bit: rng.chance(1, 3), claimed_small, claimed: rng.usize_below(4), recipient: rng.usize_below(4), plain: plain(rng), insider, skip_ss: claimed_small && rng.chance(1, 2) }
                    }
                    8..=9 if nfiles >= 2 => {
                        let a = rng.usize_below(nfiles);
                        let mut b = rng.usize_below(nfiles);
                        if b == a {
                            b = (b + 1) % nfiles;
                        }
                        Op::Recombine { a, b, field: 1 + rng.usize_below(4) }
                    }
                    10 => {
                        ops.push(Op::EncryptToSmallOrder { sender: rng.usize_below(4), point: rng.usize_below(7), high_bit: rng.chance(1, 3), plain: plain(rng) });
                        continue;
                    }
                    11 => {
                        let (s1, r1) = (rng.usize_below(4), rng.usize_below(4));
                        let (s2, r2) = ((s1 + 1 + rng.usize_below(3)) % 4, rng.usize_below(4));
                        ops.push(Op::Paired { s1, r1, s2, r2, plain: Plain { len: rng.usize_below(300), fill_seed: rng.next_u64() }, caps: caps(rng), e: Hx(rng.bytes(32)), payload: Hx(rng.bytes(32)) });
                        continue;
                    }
                    _ => Op::Honest { sender: rng.usize_below(4), recipient: rng.usize_below(4), plain: plain(rng), caps: caps(rng) },
                };
                ops.push(op);
                nfiles += 1;
            } else {
                let to = rng.usize_below(4);
                let pub_of = if rng.chance(5, 6) { to } else { rng.usize_below(4) };
                let nested = if nfiles >= 2 && rng.chance(1, 5) { Some(rng.usize_below(nfiles)) } else { None };
                ops.push(Op::Deliver { file: rng.usize_below(nfiles), to, pub_of, caps: caps(rng), nested });
            }
        }
        // every file is delivered at least to its most interesting readers
        for f in 0..nfiles {
            for to in 0..4 {
                if rng.chance(1, 2) {
                    ops.push(Op::Deliver { file: f, to, pub_of: to, caps: vec![], nested: None });
                }
            }
        }
        Scn { keys, ops, entropy_tag: rng.next_u64() }
    }

    fn execute(&self, s: &Scn) -> RunOut {
        let mut out = RunOut::default();
        out.props = vec!["C05", "C08"];
        let keys: Vec<[u8; 32]> = s.keys.iter().map(|k| k.a32()).collect();
        let pubs: Vec<[u8; 32]> = keys.iter().map(pk).collect();
        let trace = Trace::new(200_000, false);
        let _ent = install_entropy(s.entropy_tag, trace.clone());
        let mut files: Vec<FileFacts> = vec![];
        let mut deliveries = 0u64;
        for (oi, op) in s.ops.iter().enumerate() {
            match op {
                Op::Honest { sender, recipient, plain, caps } => {
                    let pt = plain.bytes();
                    let (o, bytes, _) = kestrel_encrypt(&keys[*sender], &pubs[*sender], &pubs[*recipient], None, None, &pt, caps, &trace);
                    if !o.is_ok() {
                        out.violations.push(viol("C05", "honest_encrypt_failed", format!("op {}: honest encryption failed: {:?}", oi, o)));
                    }
                    files.push(FileFacts { bytes, coherent: Some((keys[*sender], pubs[*sender], pubs[*recipient], pt)), legit_dh: true });
                }
                Op::Mismatch { sender_priv, claimed, recipient, plain } => {
                    let pt = plain.bytes();
                    let (_o, bytes, _) = kestrel_encrypt(&keys[*sender_priv], &pubs[*claimed], &pubs[*recipient], None, None, &pt, &[], &trace);
                    files.push(FileFacts { bytes, coherent: Some((keys[*sender_priv], pubs[*claimed], pubs[*recipient], pt)), legit_dh: true });
                }
                Op::Forge { priv_used, claimed, recipient, plain, chunking } => {
                    let pt = plain.bytes();
                    let mut r = Rng::new(s.entropy_tag ^ (oi as u64) << 8);
                    let e = r.arr32();
                    let payload = r.arr32();
                    let bytes = rf::write_key_file(
                        &rf::KeyParams { s_priv: &keys[*priv_used], s_pub_claimed: &pubs[*claimed], e_priv: &e, e_pub: &pk(&e), recipient: &pubs[*recipient], payload_key: &payload },
                        &pt,
                        chunking,
                    );
                    files.push(FileFacts { bytes, coherent: Some((keys[*priv_used], pubs[*claimed], pubs[*recipient], pt)), legit_dh: true });
                }
                Op::ForgeZero { point, high_bit, claimed_small, claimed, recipient, plain, insider, skip_ss } => {
                    let pt = plain.bytes();
                    let e_pub = small_order(*point, *high_bit);
                    let mut r = Rng::new(s.entropy_tag ^ (oi as u64) << 8 ^ 0x99);
                    let payload = r.arr32();
                    let zero = [0u8; 32];
                    // sanity of the fault itself: the point really forces a zero secret
                    if rp::x25519(&keys[*recipient], &e_pub) != zero {
                        out.violations.push(viol("C05", "harness_small_order_table", format!("point {} is not small-order", to_hex(&e_pub))));
                    }
                    let (cl, ss) = if *claimed_small {
                        (small_order((*point + 3) % 7, false), zero)
                    } else if *insider {
                        // the claimed party itself builds the file: the static-static secret is genuine
                        (pubs[*claimed], rp::x25519(&keys[*claimed], &pubs[*recipient]))
                    } else {
                        // the forger does not know the claimed party's private key: it guesses ss = 0
                        (pubs[*claimed], zero)
                    };
                    // with skip_ss the ephemeral key is the forger's own (es genuine) and only the static key is low-order
                    let bytes = if *skip_ss {
                        let mut rr = Rng::new(s.entropy_tag ^ (oi as u64) << 8 ^ 0x5515);
                        let e = rr.arr32();
                        // ... and the static-static step is either left out or done with the all-zero secret that
                        // the low-order static key forces (what a reader computes if it does not refuse it)
                        let ss_zero = ((s.entropy_tag >> 3) ^ oi as u64) & 1 == 1;
                        forge_opt(&pk(&e), &rp::x25519(&e, &pubs[*recipient]), &cl, if ss_zero { Some(&zero) } else { None }, &pubs[*recipient], &payload, &pt)
                    } else {
                        forge(&e_pub, &zero, &cl, &ss, &pubs[*recipient], &payload, &pt, &crate::gen::full_chunking(pt.len(), 65536))
                    };
                    files.push(FileFacts { bytes, coherent: None, legit_dh: false });
                    out.count("probe.forge_zero", 1);
                }
                Op::Recombine { a, b, field } => {
                    let (fa, fb) = (&files[*a % files.len()], &files[*b % files.len()]);
                    let mut bytes = fa.bytes.clone();
                    if fa.bytes.len() >= 132 && fb.bytes.len() >= 132 {
                        match field {
                            1 => bytes[4..36].copy_from_slice(&fb.bytes[4..36]),
                            2 => bytes[36..84].copy_from_slice(&fb.bytes[36..84]),
                            3 => bytes[84..132].copy_from_slice(&fb.bytes[84..132]),
                            _ => {
                                bytes.truncate(132);
                                bytes.extend_from_slice(&fb.bytes[132..]);
                            }
                        }
                    }
                    // a recombination that reproduces an existing file byte for byte *is* that file
                    let twin = files.iter().find(|f| f.bytes == bytes).cloned();
                    let same = twin.is_some();
                    match twin {
                        Some(t) => files.push(t),
                        None => files.push(FileFacts { bytes, coherent: None, legit_dh: false }),
                    }
                    out.count("probe.recombined", (!same) as u64);
                }
                Op::Deliver { file, to, pub_of, caps, nested } => {
                    let f = &files[*file % files.len()];
                    deliveries += 1;
                    let (o, sink) = match nested {
                        None => kestrel_decrypt(&keys[*to], &pubs[*pub_of], &f.bytes, caps, &trace),
                        Some(n) => {
                            out.count("probe.nested_decryption", 1);
                            let inner = files[*n % files.len()].bytes.clone();
                            kestrel_decrypt_nested(&keys[*to], &pubs[*pub_of], &f.bytes, &inner, &trace)
                        }
                    };
                    match &o {
                        Outcome::Panic(m) => out.violations.push(viol("C05", "panic", format!("op {}: {}", oi, m))),
                        Outcome::Hang => out.violations.push(viol("C05", "hang", format!("op {}", oi))),
                        Outcome::Ok(rep) => {
                            out.count("probe.delivery_ok", 1);
                            let rep = rep.clone().unwrap_or_default();
                            match &f.coherent {
                                None => out.violations.push(viol("C05", "incoherent_file_accepted", format!("op {}: a file whose handshake fields come from different files, or that was forged from public data with zero DH results, decrypted (reported sender {})", oi, to_hex(&rep)))),
                                Some((priv_used, claimed, recipient, pt)) => {
                                    if *recipient != pubs[*to] {
                                        out.violations.push(viol("C05", "wrong_recipient_decrypts", format!("op {}: party {} decrypted a file addressed to another public key", oi, to)));
                                    }
                                    if rep != claimed.to_vec() {
                                        out.violations.push(viol("C05", "reported_sender_not_claimed", format!("op {}: reported sender {} is not the embedded sender key", oi, to_hex(&rep))));
                                    }
                                    if pk(priv_used) != *claimed {
                                        out.violations.push(viol("C05", "sender_without_private_key", format!("op {}: the file names sender {} but was made with the private key of {}; it must be rejected", oi, to_hex(&claimed[..6]), to_hex(&pk(priv_used)[..6]))));
                                    }
                                    if sink != *pt {
                                        out.violations.push(viol("C05", "wrong_plaintext", format!("op {}: accepted with a different plaintext", oi)));
                                    }
                                }
                            }
                        }
                        Outcome::Err(e) => {
                            out.count(&format!("probe.delivery_rejected.{}", e.variant), 1);
                            if let Some((priv_used, claimed, recipient, _)) = &f.coherent {
                                if f.legit_dh && *recipient == pubs[*to] && to == pub_of && pk(priv_used) == *claimed {
                                    out.violations.push(viol("C05", "honest_file_rejected", format!("op {}: a coherent file addressed to party {} from the holder of the claimed key was rejected: {}", oi, to, e.variant)));
                                }
                            }
                            if !sink.is_empty() && f.coherent.is_none() {
                                out.violations.push(viol("C05", "plaintext_released_from_forgery", format!("op {}: {} bytes were written before the forgery was rejected", oi, sink.len())));
                            }
                        }
                    }
                }
                Op::EncryptToSmallOrder { sender, point, high_bit, plain } => {
                    let pt = plain.bytes();
                    let r = small_order(*point, *high_bit);
                    let (o, bytes, writes) = kestrel_encrypt(&keys[*sender], &pubs[*sender], &r, None, None, &pt, &[], &trace);
                    out.count("probe.encrypt_to_small_order", 1);
                    match o {
                        Outcome::Ok(_) => out.violations.push(viol("C05", "small_order_recipient_accepted", format!("op {}: encryption to the small-order key {} succeeded ({} bytes produced)", oi, to_hex(&r), bytes.len()))),
                        Outcome::Err(_) => {
                            if writes > 0 {
                                out.violations.push(viol("C05", "small_order_recipient_file_started", format!("op {}: encryption to a small-order key failed but {} write calls were made", oi, writes)));
                            }
                        }
                        Outcome::Panic(m) => out.violations.push(viol("C05", "panic", format!("op {}: {}", oi, m))),
                        Outcome::Hang => out.violations.push(viol("C05", "hang", format!("op {}", oi))),
                    }
                }
                Op::Paired { s1, r1, s2, r2, plain, caps, e, payload } => {
                    let pt = plain.bytes();
                    let e = e.a32();
                    let ep = pk(&e);
                    let p = payload.a32();
                    let (o1, f1, _) = kestrel_encrypt(&keys[*s1], &pubs[*s1], &pubs[*r1], Some((&e, &ep)), Some(&p), &pt, caps, &trace);
                    let (o2, f2, _) = kestrel_encrypt(&keys[*s2], &pubs[*s2], &pubs[*r2], Some((&e, &ep)), Some(&p), &pt, caps, &trace);
                    out.count("probe.paired", 1);
                    if o1.is_ok() && o2.is_ok() {
                        if f1.len() != f2.len() {
                            out.violations.push(viol("C08", "paired_length", format!("op {}: same plaintext and schedule, different identities: {} vs {} bytes", oi, f1.len(), f2.len())));
                        } else if f1.len() >= 132 {
                            if f1[..36] != f2[..36] {
                                out.violations.push(viol("C08", "paired_cleartext_header", format!("op {}: bytes 0..36 differ between identity pairs with the same ephemeral key", oi)));
                            }
                            // chunk headers (counter, flag, length) must agree
                            let mut off = 132;
                            while off + 16 <= f1.len() {
                                if f1[off..off + 16] != f2[off..off + 16] {
                                    out.violations.push(viol("C08", "paired_chunk_header", format!("op {}: chunk header at {} differs between identity pairs", oi, off)));
                                    break;
                                }
                                let l = u32::from_be_bytes(f1[off + 12..off + 16].try_into().unwrap()) as usize;
                                off += 32 + l;
                            }
                        }
                    } else {
                        out.violations.push(viol("C08", "paired_encrypt_failed", format!("op {}: {:?} / {:?}", oi, o1, o2)));
                    }
                }
            }
        }
        remove_entropy();
        let t = trace.borrow();
        out.trace_hash = t.hash;
        out.steps = t.seq;
        let kinds: Vec<&str> = s
            .ops
            .iter()
            .map(|o| match o {
                Op::Honest { .. } => "H",
                Op::Mismatch { .. } => "M",
                Op::Forge { .. } => "F",
                Op::ForgeZero { .. } => "Z",
                Op::Recombine { .. } => "R",
                Op::Deliver { .. } => "d",
                Op::EncryptToSmallOrder { .. } => "S",
                Op::Paired { .. } => "P",
            })
            .collect();
        out.signature = format!("a4|{}", kinds.join(""));
        out.nontrivial = deliveries > 0 || s.ops.len() > 1;
        out
    }

    fn shrink(&self, s: &Scn) -> Vec<Scn> {
        // drop operations from the end first (file indices of earlier operations stay valid);
        // dropping a file-creating operation in the middle would renumber files, so only
        // deliveries and non-file operations are dropped there
        let mut c = vec![];
        if s.ops.len() > 1 {
            let mut t = s.clone();
            t.ops.pop();
            c.push(t);
        }
        for i in 0..s.ops.len() {
            if matches!(s.ops[i], Op::Deliver { .. } | Op::EncryptToSmallOrder { .. } | Op::Paired { .. }) && s.ops.len() > 1 {
                let mut t = s.clone();
                t.ops.remove(i);
                c.push(t);
            }
        }
        c
    }
    fn real_components(&self) -> Vec<&'static str> {
        vec!["kestrel-crypto (working tree): encrypt::key_encrypt, decrypt::key_decrypt, noise.rs, lib.rs (x25519, AEAD, HKDF)", "orion"]
    }
    fn simulated_components(&self) -> Vec<&'static str> {
        vec!["the parties' mailboxes and the carrier (misdelivery, recombination of handshake fields)", "an independent encryptor/forger (reference writer, incl. zero-DH forgeries from public data)", "OS entropy (seeded)", "Read/Write seams"]
    }
}

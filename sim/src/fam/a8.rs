//! Family A8 "truncated messages": storage/transport faults on Noise handshake messages and on
//! AEAD ciphertexts handed to the public library surfaces noise_decrypt and
//! chapoly_decrypt_ietf: an authentic message truncated at every offset, extended, bit-flipped,
//! and constant strings of every small length. Oracle: a normal result or an error value,
//! never a panic, abort or hang; success only for the authentic bytes. Part of C09.

use crate::engine::*;
use crate::hx::Hx;
use crate::refmodel::{noise as rn, prims as rp};
use crate::rng::Rng;
use crate::seams::*;
use kestrel_crypto::{PrivateKey, PublicKey};
use serde::{Deserialize, Serialize};

#[derive(Serialize, Deserialize, Clone, Debug, PartialEq)]
pub enum Surface {
    Noise,
    Aead,
    /// key_decrypt on the key-mode magic followed by arbitrary bytes
    KeyFile,
    /// pass_decrypt on the password-mode magic followed by arbitrary bytes (>= 32 of them cost one scrypt)
    PassFile,
}

#[derive(Serialize, Deserialize, Clone, Debug, PartialEq)]
pub enum Mutn {
    None,
    Truncate(usize),
    Extend(Hx),
    FlipBit(usize, u8),
    Constant(u8, usize),
    Random(usize, u64),
}

#[derive(Serialize, Deserialize, Clone, Debug)]
pub struct Scn {
    pub surface: Surface,
    pub seed: u64,
    /// AEAD: plaintext and aad lengths of the authentic message
    pub pt_len: usize,
    pub aad_len: usize,
    pub mutn: Mutn,
    pub enumerate: bool,
}

pub struct A8;

struct Authentic {
    msg: Vec<u8>,
    r_priv: [u8; 32],
    prologue: Vec<u8>,
    key: [u8; 32],
    nonce: [u8; 12],
    aad: Vec<u8>,
    pt: Vec<u8>,
    sender: [u8; 32],
}

fn authentic(s: &Scn) -> Authentic {
    let mut r = Rng::new(s.seed);
    let (s_priv, r_priv, e_priv) = (r.arr32(), r.arr32(), r.arr32());
    let key = r.arr32();
    let mut nonce = [0u8; 12];
    nonce.copy_from_slice(&r.bytes(12));
    let aad = r.bytes(s.aad_len);
    let pt = r.bytes(s.pt_len);
    let prologue = vec![0x65, 0x67, 0x6b, 0x10];
    let msg = match s.surface {
        Surface::Noise => {
            // pt_len doubles as the payload length class: anything but 32 bytes is an authentic
            // Noise message that is not a kestrel payload key and must be refused with an error
            let payload = r.bytes(noise_payload_len(s));
            rn::write_x(&prologue, &s_priv, &rp::x25519_base(&s_priv), &e_priv, &rp::x25519_base(&e_priv), &rp::x25519_base(&r_priv), &payload).message
        }
        Surface::Aead => rp::seal(&key, &nonce, &aad, &pt),
        // the "authentic message" of the file surfaces is just the magic: everything behind it is arbitrary
        Surface::KeyFile => vec![0x65, 0x67, 0x6b, 0x10],
        Surface::PassFile => vec![0x65, 0x67, 0x6b, 0x20],
    };
    Authentic { msg, r_priv, prologue, key, nonce, aad, pt, sender: rp::x25519_base(&s_priv) }
}

fn noise_payload_len(s: &Scn) -> usize {
    match s.pt_len {
        0 => 0,
        1 => 16,
        15 => 31,
        17 => 33,
        100 => 100,
        _ => 32,
    }
}

fn mutate(a: &[u8], m: &Mutn) -> Vec<u8> {
    match m {
        Mutn::None => a.to_vec(),
        Mutn::Truncate(n) => a[..(*n).min(a.len())].to_vec(),
        Mutn::Extend(b) => {
            let mut v = a.to_vec();
            v.extend_from_slice(&b.0);
            v
        }
        Mutn::FlipBit(off, bit) => {
            let mut v = a.to_vec();
            if !v.is_empty() {
                let o = off % v.len();
                v[o] ^= 1 << (bit & 7);
            }
            v
        }
        Mutn::Constant(b, n) => vec![*b; *n],
        Mutn::Random(n, seed) => Rng::new(*seed).bytes(*n),
    }
}

impl A8 {
    fn judge(&self, s: &Scn, a: &Authentic) -> RunOut {
        let mut out = RunOut::default();
        out.props = vec!["C09"];
        let msg = mutate(&a.msg, &s.mutn);
        let is_authentic = msg == a.msg;
        let g = match s.surface {
            Surface::Noise => run_guarded(|| {
                let r = PrivateKey::try_from(&a.r_priv[..]).unwrap();
                let rpk = PublicKey::try_from(&rp::x25519_base(&a.r_priv)[..]).unwrap();
                kestrel_crypto::noise_decrypt(&r, &rpk, &a.prologue, &msg).map(|m| m.public_key.as_bytes().to_vec()).map_err(|e| e.to_string())
            }),
            Surface::Aead => run_guarded(|| kestrel_crypto::chapoly_decrypt_ietf(&a.key, &a.nonce, &msg, &a.aad).map_err(|e| e.to_string())),
            Surface::KeyFile => run_guarded(|| {
                let r = PrivateKey::try_from(&a.r_priv[..]).unwrap();
                let rpk = PublicKey::try_from(&rp::x25519_base(&a.r_priv)[..]).unwrap();
                let mut sink = Vec::new();
                kestrel_crypto::decrypt::key_decrypt(&mut &msg[..], &mut sink, &r, &rpk, kestrel_crypto::AsymFileFormat::V1).map(|p| p.as_bytes().to_vec()).map_err(|e| e.to_string())
            }),
            Surface::PassFile => run_guarded(|| {
                let mut sink = Vec::new();
                kestrel_crypto::decrypt::pass_decrypt(&mut &msg[..], &mut sink, b"garbage-file-password", kestrel_crypto::PassFileFormat::V1).map(|_| sink).map_err(|e| e.to_string())
            }),
        };
        let surf = match s.surface {
            Surface::Noise => "noise_decrypt",
            Surface::Aead => "chapoly_decrypt_ietf",
            Surface::KeyFile => "key_decrypt",
            Surface::PassFile => "pass_decrypt",
        };
        let file_surface = matches!(s.surface, Surface::KeyFile | Surface::PassFile);
        let class;
        match g {
            Guarded::Panicked(m) => {
                class = "panic";
                out.violations.push(viol("C09", &format!("panic_{}", surf), format!("surface={} input_len={} ({:?}): panicked: {}", surf, msg.len(), short(&s.mutn), m)));
            }
            Guarded::Hang => {
                class = "hang";
                out.violations.push(viol("C09", &format!("hang_{}", surf), format!("surface={} input_len={}", surf, msg.len())));
            }
            Guarded::Returned(Ok(v)) => {
                class = "ok";
                let right = match s.surface {
                    Surface::Noise => v == a.sender && noise_payload_len(s) == 32,
                    Surface::Aead => v == a.pt,
                    _ => false,
                };
                if !is_authentic || !right {
                    out.violations.push(viol("C09", &format!("accepted_{}", surf), format!("surface={}: a modified message ({:?}) was accepted, or the authentic one opened to the wrong value", surf, short(&s.mutn))));
                }
            }
            Guarded::Returned(Err(e)) => {
                class = "err";
                let must_accept = is_authentic && !file_surface && !(s.surface == Surface::Noise && noise_payload_len(s) != 32);
                if must_accept {
                    out.violations.push(viol("C09", &format!("authentic_rejected_{}", surf), format!("surface={}: the authentic message was rejected: {}", surf, e)));
                }
            }
        }
        out.trace_hash = crate::rng::fnv64(format!("{}|{}|{}", surf, crate::hx::to_hex(&msg), class).as_bytes());
        out.steps = 1;
        let lc = match msg.len() {
            0 => "0",
            1..=15 => "<16",
            16 => "16",
            17..=63 => "<64",
            64..=79 => "<80",
            80..=95 => "<96",
            96..=127 => "<128",
            128 => "128",
            _ => ">128",
        };
        out.count(&format!("fault.msg.{}", mclass(&s.mutn)), 1);
        out.signature = format!("a8|{}|{}|{}|{}", surf, mclass(&s.mutn), lc, class);
        out.nontrivial = s.mutn != Mutn::None;
        out
    }
}

fn mclass(m: &Mutn) -> &'static str {
    match m {
        Mutn::None => "none",
        Mutn::Truncate(_) => "truncate",
        Mutn::Extend(_) => "extend",
        Mutn::FlipBit(..) => "flip",
        Mutn::Constant(..) => "constant",
        Mutn::Random(..) => "random",
    }
}

fn short(m: &Mutn) -> String {
    let s = format!("{:?}", m);
    s.chars().take(60).collect()
}

impl Family for A8 {
    type Scenario = Scn;
    fn name(&self) -> &'static str {
        "a8"
    }
    fn properties(&self) -> &'static [&'static str] {
        &["C09"]
    }
    fn budget(&self, tier: Tier, _p: &str) -> u64 {
        match tier {
            Tier::Quick => 200,
            Tier::Thorough => 5000,
        }
    }
    fn generate(&self, rng: &mut Rng, _tier: Tier, idx: u64) -> Scn {
        let surface = match idx % 8 {
            0 | 2 | 4 => Surface::Noise,
            1 | 3 | 5 => Surface::Aead,
            6 => Surface::KeyFile,
            _ => Surface::PassFile,
        };
        let enumerate = idx < 40 || rng.chance(1, 3);
        let pt_len = *rng.pick(&[0usize, 1, 15, 16, 17, 32, 100]);
        let aad_len = *rng.pick(&[0usize, 4, 12, 40]);
        let n = rng.usize_below(200);
        let mutn = match rng.below(6) {
            0 => Mutn::Truncate(n),
            1 => Mutn::Extend(Hx(rng.bytes(1 + n % 40))),
            2 => Mutn::FlipBit(n, rng.below(8) as u8),
            3 => Mutn::Constant(*rng.pick(&[0u8, 0xff, 0x80]), n),
            4 => Mutn::Random(n, rng.next_u64()),
            _ => Mutn::None,
        };
        Scn { surface, seed: rng.next_u64(), pt_len, aad_len, mutn, enumerate }
    }
    fn execute(&self, s: &Scn) -> RunOut {
        let a = authentic(s);
        self.judge(s, &a)
    }
    fn execute_all(&self, base: &Scn, emit: &mut dyn FnMut(Scn, RunOut)) {
        let a = authentic(base);
        if !base.enumerate {
            emit(base.clone(), self.judge(base, &a));
            return;
        }
        let mut one = |m: Mutn| {
            let mut s = base.clone();
            s.mutn = m;
            s.enumerate = false;
            let out = self.judge(&s, &a);
            emit(s, out);
        };
        if matches!(base.surface, Surface::KeyFile | Surface::PassFile) {
            // the magic followed by every length 0..200 of arbitrary bytes (password mode: beyond 31 bytes
            // each case costs one scrypt evaluation, so only up to 40 there)
            let top = if base.surface == Surface::PassFile { 40 } else { 200 };
            let mut r = Rng::new(base.seed ^ 0xF11E);
            for n in 0..=top {
                one(Mutn::Extend(Hx(vec![0u8; n])));
                one(Mutn::Extend(Hx(vec![0xffu8; n])));
                one(Mutn::Extend(Hx(r.bytes(n))));
            }
            for n in 0..4 {
                one(Mutn::Truncate(n));
            }
            return;
        }
        one(Mutn::None);
        // truncation at every offset, every single-bit flip, extension, constant strings of every length
        for n in 0..a.msg.len() {
            one(Mutn::Truncate(n));
        }
        for off in 0..a.msg.len() {
            for bit in 0..8 {
                one(Mutn::FlipBit(off, bit));
            }
        }
        one(Mutn::Extend(Hx(vec![0])));
        one(Mutn::Extend(Hx(vec![0xaa; 16])));
        one(Mutn::Extend(Hx(vec![0x55; 48])));
        for n in 0..=160 {
            one(Mutn::Constant(0, n));
            one(Mutn::Constant(0xff, n));
        }
        // lengths around the 16-bit limit of a Noise message
        for n in [65535usize, 65536, 65537, 70000] {
            one(Mutn::Constant(0, n));
            one(Mutn::Extend(Hx(vec![0x11; n - a.msg.len().min(n)])));
        }
        let mut r = Rng::new(base.seed ^ 0x8888);
        for n in 0..=160 {
            one(Mutn::Random(n, r.next_u64()));
        }
    }
    fn shrink(&self, s: &Scn) -> Vec<Scn> {
        let mut c = vec![];
        match &s.mutn {
            Mutn::Truncate(n) if *n > 0 => {
                for k in [0, n / 2, n - 1] {
                    let mut t = s.clone();
                    t.mutn = Mutn::Truncate(k);
                    c.push(t);
                }
            }
            Mutn::Constant(b, n) if *n > 0 => {
                for k in [0, n / 2, n - 1] {
                    let mut t = s.clone();
                    t.mutn = Mutn::Constant(*b, k);
                    c.push(t);
                }
            }
            Mutn::Random(n, sd) if *n > 0 => {
                for k in [0, n / 2, n - 1] {
                    let mut t = s.clone();
                    t.mutn = Mutn::Random(k, *sd);
                    c.push(t);
                }
            }
            _ => {}
        }
        if s.pt_len > 0 {
            let mut t = s.clone();
            t.pt_len = 0;
            c.push(t);
        }
        if s.aad_len > 0 {
            let mut t = s.clone();
            t.aad_len = 0;
            c.push(t);
        }
        c
    }
    fn real_components(&self) -> Vec<&'static str> {
        vec!["kestrel-crypto (working tree): noise_decrypt (noise.rs read_message), chapoly_decrypt_ietf"]
    }
    fn simulated_components(&self) -> Vec<&'static str> {
        vec!["the transport/storage that delivers the handshake message or AEAD ciphertext (truncation, extension, bit flips, constant and random strings)", "the authentic message (reference writer)"]
    }
}

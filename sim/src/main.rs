//! ksim — deterministic simulation with fault injection for finfet/kestrel.
//!
//!   ksim check <PROPERTY> [--tier quick|thorough] [--count N] [--workers N]
//!   ksim replay <file>
//!   ksim selftest [refmodel|determinism]
//!
//! Exit codes: 0 property held on everything explored; 1 violation(s) (a line
//! "VIOLATION property=<id> replay=<path>" each); 2 harness error.

#[cfg(feature = "keyring")]
#[path = "/repo/src/cli/src/errors.rs"]
#[allow(dead_code)]
mod errors;
#[cfg(feature = "keyring")]
#[path = "/repo/src/cli/src/keyring.rs"]
#[allow(dead_code)]
mod keyring;

mod alloc;
mod cli;
mod dynfam;
mod engine;
mod fam;
mod gen;
mod hx;
mod ops;
mod refmodel;
mod rng;
mod seams;
mod selftest;

use dynfam::DynFamily;
use engine::*;
use serde_json::{json, Value};
use std::collections::BTreeMap;

#[global_allocator]
static GLOBAL: alloc::SimAlloc = alloc::SimAlloc;

pub const DEFAULT_SEED: u64 = 20261001;

pub fn root() -> String {
    std::env::var("VERIF_ROOT").unwrap_or_else(|_| "/verif".to_string())
}

pub fn families() -> Vec<Box<dyn DynFamily>> {
    #[allow(unused_mut)]
    let mut v: Vec<Box<dyn DynFamily>> = vec![Box::new(fam::a1::A1 { pass_only: false }), Box::new(fam::a1::A1 { pass_only: true }), Box::new(fam::a2::A2), Box::new(fam::a3::A3), Box::new(fam::a4::A4), Box::new(fam::a6::A6), Box::new(fam::a7::A7), Box::new(fam::a8::A8), Box::new(fam::b1::B1), Box::new(fam::b2::B2), Box::new(fam::b3::B3), Box::new(fam::b4::B4), Box::new(fam::b5::B5), Box::new(fam::b6::B6), Box::new(fam::b7::B7), Box::new(fam::g0::G0)];
    #[cfg(feature = "keyring")]
    {
        let k: Vec<Box<dyn DynFamily>> = vec![Box::new(fam::a5::A5), Box::new(fam::a9::A9 { locked: true }), Box::new(fam::a9::A9 { locked: false })];
        v.extend(k);
    }
    v
}

/// (family, properties) that exist only in a build with the `keyring` feature
pub fn keyring_families() -> Vec<(&'static str, &'static [&'static str])> {
    vec![("a5", &["C07"]), ("a9l", &["C15", "C09"]), ("a9k", &["C17", "C09"])]
}

fn level_of(prop: &str) -> &'static str {
    match prop {
        "C03" | "C04" | "C09" | "C10" | "C13" | "C15" => "fault_enumeration",
        _ => "exploration",
    }
}

struct Known {
    property: String,
    oracle: String,
    contains: String,
    what: String,
}

fn load_known() -> Result<Vec<Known>, String> {
    let p = format!("{}/known_findings.json", root());
    let txt = match std::fs::read_to_string(&p) {
        Ok(t) => t,
        Err(_) => return Ok(vec![]),
    };
    let v: Value = serde_json::from_str(&txt).map_err(|e| format!("{}: {}", p, e))?;
    let mut out = vec![];
    if let Some(arr) = v.get("known").and_then(|k| k.as_array()) {
        for k in arr {
            out.push(Known {
                property: k["property"].as_str().unwrap_or("").to_string(),
                oracle: k["oracle"].as_str().unwrap_or("").to_string(),
                contains: k["detail_contains"].as_str().unwrap_or("").to_string(),
                what: k["what"].as_str().unwrap_or("").to_string(),
            });
        }
    }
    Ok(out)
}

fn arg_val(args: &[String], name: &str) -> Option<String> {
    args.iter().position(|a| a == name).and_then(|i| args.get(i + 1).cloned())
}

fn main() {
    seams::install_panic_hook_once();
    let args: Vec<String> = std::env::args().collect();
    let code = match args.get(1).map(|s| s.as_str()) {
        Some("check") => cmd_check(&args[2..]),
        Some("replay") => cmd_replay(&args[2..]),
        Some("selftest") => selftest::run(&args[2..]),
        _ => {
            eprintln!("usage: ksim check <PROPERTY> [--tier quick|thorough] | replay <file> | selftest");
            2
        }
    };
    std::process::exit(code);
}

fn cmd_check(args: &[String]) -> i32 {
    let prop = match args.first() {
        Some(p) => p.clone(),
        None => {
            eprintln!("ksim check: property id required");
            return 2;
        }
    };
    let tier = match arg_val(args, "--tier").or_else(|| std::env::var("VERIF_TIER").ok()).as_deref() {
        Some("thorough") => Tier::Thorough,
        _ => Tier::Quick,
    };
    let seed: u64 = std::env::var("VERIF_SEED").ok().and_then(|s| s.parse().ok()).unwrap_or(DEFAULT_SEED);
    let workers: usize = arg_val(args, "--workers").and_then(|s| s.parse().ok()).unwrap_or_else(|| {
        std::thread::available_parallelism().map(|n| n.get()).unwrap_or(8).min(16)
    });
    let count_override: Option<u64> = arg_val(args, "--count").and_then(|s| s.parse().ok());
    let only_family = arg_val(args, "--family");
    println!("ksim check property={} tier={} VERIF_SEED={} workers={}", prop, tier.name(), seed, workers);
    let known = match load_known() {
        Ok(k) => k,
        Err(e) => {
            eprintln!("harness error: {}", e);
            return 2;
        }
    };
    let fams: Vec<Box<dyn DynFamily>> = families()
        .into_iter()
        .filter(|f| f.properties().contains(&prop.as_str()))
        .filter(|f| only_family.as_deref().map(|n| n == f.name()).unwrap_or(true))
        .collect();
    if fams.is_empty() {
        if !cfg!(feature = "keyring") && keyring_families().iter().any(|(_, ps)| ps.contains(&prop.as_str())) {
            eprintln!("harness error: {} is decided only by families that compile /repo/src/cli/src/keyring.rs into the simulator, and that no longer builds (see build/ksim-build.log)", prop);
        } else {
            eprintln!("harness error: no family has an oracle for {}", prop);
        }
        return 2;
    }
    engine::start_watchdog(prop.clone(), if tier == Tier::Quick { 300 } else { 900 }, root(), seed);
    let t0 = std::time::Instant::now();
    let mut evaluations = 0u64;
    let mut relevant = 0u64;
    let mut base = 0u64;
    let mut steps = 0u64;
    let mut distinct = 0u64;
    let mut distinct_all = 0u64;
    let mut counters: BTreeMap<String, u64> = BTreeMap::new();
    let mut samples: Vec<Value> = vec![];
    let mut fam_reports: Vec<Value> = vec![];
    let mut real: Vec<&'static str> = vec![];
    let mut simulated: Vec<&'static str> = vec![];
    let mut n_viol = 0usize;
    let mut n_known = 0usize;
    let mut replay_n = 0usize;
    let mut known_hits: BTreeMap<usize, usize> = BTreeMap::new();
    let mut viol_totals: BTreeMap<String, u64> = BTreeMap::new();
    let mut determinism_failures: Vec<String> = Vec::new();
    for f in &fams {
        let count = count_override.unwrap_or_else(|| f.budget(tier, &prop));
        if count == 0 {
            continue;
        }
        let cfg = RunCfg {
            seed,
            tier,
            property: prop.clone(),
            workers,
            count,
            max_violations: 5,
            wall_limit_s: if tier == Tier::Quick { 240.0 } else { 3000.0 },
            stride: 1,
        };
        let tf = std::time::Instant::now();
        let agg = f.run(&cfg);
        let fam_wall = tf.elapsed().as_secs_f64();
        if agg.harness_panics > 0 {
            eprintln!("harness error: {} executions of family {} panicked inside the harness (not inside the code under test): {}", agg.harness_panics, f.name(), agg.harness_panic_example.clone().unwrap_or_default().chars().take(600).collect::<String>());
            return 2;
        }
        // determinism self-check: a slice of this batch again at two other worker counts, same
        // hashes; the slice is sized to cost a few seconds at most
        let cpu_per_scn = fam_wall * workers as f64 / agg.base_scenarios.max(1) as f64;
        let dn = count.min(48).min(((3.0 * workers as f64 / 2.0) / cpu_per_scn.max(1e-6)) as u64).max(2).min(count);
        // spread over the whole batch (the first indices of some families are the heaviest)
        let dcfg = |w: usize| RunCfg { seed, tier, property: prop.clone(), workers: w, count: dn, max_violations: 0, wall_limit_s: 600.0, stride: (count / dn).max(1) };
        let d1 = f.run(&dcfg((workers / 2).max(1)));
        let d2 = f.run(&dcfg(workers.max(2)));
        if d1.hash_sum != d2.hash_sum || d1.evaluations != d2.evaluations {
            for (idx, h) in &d1.index_hashes {
                if d2.index_hashes.get(idx) != Some(h) {
                    eprintln!("  run_index {} of family {} differs between two executions: {:016x} vs {:016x}", idx, f.name(), h, d2.index_hashes.get(idx).copied().unwrap_or(0));
                    for (k, (scn, hash, nv)) in f.run_index(seed, tier, *idx).iter().enumerate().take(3) {
                        eprintln!("    third execution, sub {}: trace {:016x}, {} violations, scenario {}", k, hash, nv, scn.to_string().chars().take(700).collect::<String>());
                    }
                }
            }
            // Executions of this family did not repeat exactly. If the run found violations of the
            // property anyway they are reported (state carried between calls inside the code under
            // test is a plausible cause and a finding in itself); only a run without any violation
            // is unusable and ends as a harness error.
            determinism_failures.push(format!(
                "determinism self-check failed for family {} ({} runs: {:016x}/{} vs {:016x}/{})",
                f.name(), dn, d1.hash_sum, d1.evaluations, d2.hash_sum, d2.evaluations
            ));
        }
        evaluations += agg.evaluations;
        relevant += agg.relevant_evals;
        base += agg.base_scenarios;
        steps += agg.steps;
        distinct += agg.signatures.len() as u64;
        distinct_all += agg.all_signatures.len() as u64;
        for (k, v) in &agg.counters {
            *counters.entry(k.clone()).or_insert(0) += v;
        }
        for (_, s) in agg.samples.iter().take(3) {
            let mut s = s.clone();
            s["family"] = json!(f.name());
            samples.push(s);
        }
        for r in f.real_components() {
            if !real.contains(&r) {
                real.push(r);
            }
        }
        for r in f.simulated_components() {
            if !simulated.contains(&r) {
                simulated.push(r);
            }
        }
        fam_reports.push(json!({
            "family": f.name(),
            "base_scenarios": agg.base_scenarios,
            "executions": agg.evaluations,
            "executions_with_an_oracle_of_this_property": agg.relevant_evals,
            "distinct_nontrivial_signatures": agg.signatures.len(),
            "wall_s": fam_wall,
            "batch_hash": format!("{:016x}", agg.hash_sum),
            "determinism_selfcheck_runs": dn,
        }));
        // violations: known-finding match, else minimise + replay file
        let mut seen_oracles: BTreeMap<String, usize> = BTreeMap::new();
        for (k, v) in &agg.viol_counts {
            *viol_totals.entry(format!("{}/{}", f.name(), k)).or_insert(0) += *v;
        }
        for (_, scn, v, _h) in &agg.violations {
            if let Some(ki) = known.iter().position(|k| k.property == v.property && (k.oracle.is_empty() || k.oracle == v.oracle) && v.detail.contains(&k.contains)) {
                *known_hits.entry(ki).or_insert(0) += 1;
                n_known += 1;
                continue;
            }
            let c = seen_oracles.entry(v.oracle.clone()).or_insert(0);
            *c += 1;
            n_viol += 1;
            if *c > 1 || replay_n >= 12 {
                continue; // one minimised replay file per failing oracle clause
            }
            let (min_scn, min_v, min_hash, execs) = match f.minimise(scn, v, 300) {
                Ok(x) => x,
                Err(e) => {
                    eprintln!("harness error: {}", e);
                    return 2;
                }
            };
            let dir = format!("{}/replays", root());
            let _ = std::fs::create_dir_all(&dir);
            let path = format!("{}/{}-{}-{}-{}.json", dir, prop, f.name(), seed, replay_n);
            replay_n += 1;
            let file = json!({
                "property": v.property,
                "family": f.name(),
                "verif_seed": seed,
                "violation": min_v,
                "trace_hash": format!("{:016x}", min_hash),
                "minimiser_executions": execs,
                "scenario": min_scn,
                "original_violation": v,
                "original_scenario": scn,
            });
            if let Err(e) = std::fs::write(&path, serde_json::to_string_pretty(&file).unwrap()) {
                eprintln!("harness error: cannot write {}: {}", path, e);
                return 2;
            }
            println!("VIOLATION property={} replay={}", v.property, path);
            println!("  oracle={} detail={}", min_v.oracle, min_v.detail);
        }
    }
    let wall = t0.elapsed().as_secs_f64();
    for (k, n) in &viol_totals {
        println!("  oracle hits (including known findings): {} x{}", k, n);
    }
    for (ki, n) in &known_hits {
        println!("KNOWN-FINDING: property={} {} [oracle {}; seen in {} executions of this run]", known[*ki].property, known[*ki].what, known[*ki].oracle, n);
    }
    for (k, v) in &counters {
        if k.starts_with("probe.") && *v == 0 {
            println!("warning: reach probe {} stayed at zero", k);
        }
    }
    let evidence = json!({
        "property_id": prop,
        "tier": tier.name(),
        "seed": seed,
        "level": level_of(&prop),
        "coverage": {
            "evaluations": evaluations.max(0),
            "distinct_nontrivial": distinct,
            "rule": "evaluations = simulated executions (one operation history under one fully specified schedule of seam results and faults). Each execution has an abstract signature (family, direction/mode, chunk-size class, plaintext-length class relative to the chunk size, read-script class, write-script class, fault kind x position class, outcome class); distinct_nontrivial counts DISTINCT signatures among executions that are non-trivial, i.e. had at least one short read, partial write, injected fault, storage fault or more than one operation.",
            "samples": samples,
            "distinct_signatures_all": distinct_all,
            "base_scenarios": base,
            "executions_with_an_oracle_of_this_property": relevant,
            "simulated_io_steps": steps,
            "simulated_time_note": "kestrel has no clocks or timers; 'simulated time' is reported as simulated I/O steps (seam calls and observed events)",
            "runs_per_hour": if wall > 0.0 { (evaluations as f64 / wall * 3600.0) as u64 } else { 0 },
            "faults_fired_and_probes": counters,
            "families": fam_reports,
            "components_real": real,
            "components_simulated": simulated,
            "families_unavailable_reduced_build": if cfg!(feature = "keyring") { Vec::<&str>::new() } else { keyring_families().iter().filter(|(_, ps)| ps.contains(&prop.as_str())).map(|(n, _)| *n).collect::<Vec<&str>>() },
            "exhaustive": false,
        },
        "assumptions": [
            "orion (third-party primitives) is correct; the reference model in /verif/sim/src/refmodel is correct (validated at setup against RFC vectors, the repository's golden files and the pinned release)",
            "the seams (ScriptedSource/ScriptedSink/allocator wrapper/entropy hook) deliver what the scenario says",
            "a clean batch is evidence over the sampled schedules and fault sequences, not a proof",
        ],
        "wall_s": wall,
        "violations": n_viol,
        "known_findings_matched": n_known,
    });
    let dir = format!("{}/evidence", root());
    let _ = std::fs::create_dir_all(&dir);
    let path = format!("{}/{}.json", dir, prop);
    if let Err(e) = std::fs::write(&path, serde_json::to_string_pretty(&evidence).unwrap()) {
        eprintln!("harness error: cannot write {}: {}", path, e);
        return 2;
    }
    println!(
        "{}: {} executions ({} base scenarios, {} distinct non-trivial signatures), {} violations, {} known, {:.1}s; evidence {}",
        prop, evaluations, base, distinct, n_viol, n_known, wall, path
    );
    if evaluations == 0 {
        eprintln!("harness error: nothing was executed");
        return 2;
    }
    if !cfg!(feature = "keyring") {
        let missing: Vec<&str> = keyring_families().iter().filter(|(_, ps)| ps.contains(&prop.as_str())).map(|(n, _)| *n).collect();
        if !missing.is_empty() {
            println!("warning: families {:?} of this check compile /repo/src/cli/src/keyring.rs into the simulator and that no longer builds (see build/ksim-build.log); they were NOT run", missing);
            // the verdict below is about what was explored: the remaining families (the real binary in
            // world B among them) did run against the working tree
            println!("warning: {} was decided by a reduced build: families {:?} are unavailable (the evidence file says so)", prop, missing);
        }
    }
    if !determinism_failures.is_empty() {
        for d in &determinism_failures {
            if n_viol > 0 {
                println!("warning: {} - executions did not repeat exactly; the violations above were still observed", d);
            } else {
                eprintln!("harness error: {}", d);
            }
        }
        if n_viol == 0 {
            return 2;
        }
    }
    if n_viol > 0 {
        1
    } else {
        0
    }
}

fn cmd_replay(args: &[String]) -> i32 {
    let path = match args.first() {
        Some(p) => p.clone(),
        None => {
            eprintln!("ksim replay: file required");
            return 2;
        }
    };
    let txt = match std::fs::read_to_string(&path) {
        Ok(t) => t,
        Err(e) => {
            eprintln!("harness error: {}: {}", path, e);
            return 2;
        }
    };
    let v: Value = match serde_json::from_str(&txt) {
        Ok(v) => v,
        Err(e) => {
            eprintln!("harness error: {}: {}", path, e);
            return 2;
        }
    };
    let fam_name = v["family"].as_str().unwrap_or("");
    let fams = families();
    let f = match fams.iter().find(|f| f.name() == fam_name) {
        Some(f) => f,
        None => {
            eprintln!("harness error: unknown family {:?}", fam_name);
            return 2;
        }
    };
    // a replayed hang must not hang the replay: run it on a thread with a deadline
    if v["violation"]["oracle"].as_str() == Some("watchdog_hang") {
        let scn = v["scenario"].clone();
        let name = fam_name.to_string();
        let (tx, rx) = std::sync::mpsc::channel();
        std::thread::spawn(move || {
            let fams = families();
            if let Some(f) = fams.iter().find(|f| f.name() == name) {
                let _ = f.replay_base(&scn);
            }
            let _ = tx.send(());
        });
        return match rx.recv_timeout(std::time::Duration::from_secs(300)) {
            Ok(()) => {
                println!("not reproduced: the scenario finished");
                0
            }
            Err(_) => {
                println!("VIOLATION property={} replay={}", v["violation"]["property"].as_str().unwrap_or(""), path);
                1
            }
        };
    }
    let out = match f.replay(&v["scenario"]) {
        Ok(o) => o,
        Err(e) => {
            eprintln!("harness error: {}", e);
            return 2;
        }
    };
    let want_prop = v["violation"]["property"].as_str().unwrap_or("");
    let want_oracle = v["violation"]["oracle"].as_str().unwrap_or("");
    let hash = format!("{:016x}", out.trace_hash);
    let same_hash = v["trace_hash"].as_str() == Some(hash.as_str());
    println!("replay {}: family={} trace_hash={} ({})", path, fam_name, hash, if same_hash { "matches the recorded trace" } else { "differs from the recorded trace" });
    for x in &out.violations {
        println!("  observed: property={} oracle={} detail={}", x.property, x.oracle, x.detail);
    }
    if out.violations.iter().any(|x| x.property == want_prop && x.oracle == want_oracle) {
        println!("VIOLATION property={} replay={}", want_prop, path);
        1
    } else {
        println!("not reproduced: no violation of {} / {} in this execution", want_prop, want_oracle);
        0
    }
}

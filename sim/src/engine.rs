//! The run loop: seeds -> scenarios -> executions -> oracles -> violations -> minimised
//! replay files, plus per-property aggregation for the evidence files.

use crate::rng::{derive_seed, fnv64, Rng};
use serde::de::DeserializeOwned;
use serde::Serialize;
use serde_json::{json, Value};
use std::collections::{BTreeMap, BTreeSet};
use std::sync::atomic::{AtomicBool, AtomicU64, Ordering};
use std::sync::Mutex;

/// What each worker is executing right now, for the watchdog: (family, run index, scenario, since).
pub static IN_FLIGHT: Mutex<Vec<Option<(String, u64, Value, Flight)>>> = Mutex::new(Vec::new());

/// Identity of the worker thread and its CPU time when the scenario started. The watchdog
/// measures *CPU time of that thread*, not wall-clock time: a loop that touches no seam burns
/// CPU, while a loaded machine or a worker waiting for a child process does not.
#[derive(Clone, Copy)]
pub struct Flight {
    thread: libc::pthread_t,
    cpu_start: f64,
}

fn thread_cpu_seconds(t: libc::pthread_t) -> Option<f64> {
    unsafe {
        let mut cid: libc::clockid_t = 0;
        if libc::pthread_getcpuclockid(t, &mut cid) != 0 {
            return None;
        }
        let mut ts: libc::timespec = std::mem::zeroed();
        if libc::clock_gettime(cid, &mut ts) != 0 {
            return None;
        }
        Some(ts.tv_sec as f64 + ts.tv_nsec as f64 * 1e-9)
    }
}

impl Flight {
    fn now() -> Flight {
        let t = unsafe { libc::pthread_self() };
        Flight { thread: t, cpu_start: thread_cpu_seconds(t).unwrap_or(0.0) }
    }
    fn cpu_used(&self) -> f64 {
        thread_cpu_seconds(self.thread).map(|n| n - self.cpu_start).unwrap_or(0.0)
    }
}

fn flight_slot() -> usize {
    let mut g = IN_FLIGHT.lock().unwrap();
    g.push(None);
    g.len() - 1
}

fn flight_set(slot: usize, v: Option<(String, u64, Value, Flight)>) {
    if let Ok(mut g) = IN_FLIGHT.lock() {
        if slot < g.len() {
            g[slot] = v;
        }
    }
}

/// Watchdog: if one base scenario burns more than `limit_s` seconds of CPU on its worker thread the
/// code under test is looping without touching a seam (the step budget would have caught it otherwise).
/// The scenario is written out as a replay file and the process exits 1. The limit is two
/// orders of magnitude above the slowest legitimate scenario, so it only fires on a real hang.
pub fn start_watchdog(property: String, limit_s: u64, root: String, seed: u64) {
    std::thread::spawn(move || loop {
        std::thread::sleep(std::time::Duration::from_millis(500));
        let hung = {
            let g = IN_FLIGHT.lock().unwrap();
            g.iter().flatten().find(|(_, _, _, t)| t.cpu_used() > limit_s as f64).cloned()
        };
        if let Some((fam, idx, scn, _)) = hung {
            let dir = format!("{}/replays", root);
            let _ = std::fs::create_dir_all(&dir);
            let path = format!("{}/{}-{}-{}-hang{}.json", dir, property, fam, seed, idx);
            let file = json!({
                "property": property, "family": fam, "verif_seed": seed,
                "violation": {"property": property, "oracle": "watchdog_hang", "detail": format!("base scenario {} used more than {} s of CPU time on its worker thread without finishing", idx, limit_s)},
                "trace_hash": "", "scenario": scn,
            });
            let _ = std::fs::write(&path, serde_json::to_string_pretty(&file).unwrap());
            println!("VIOLATION property={} replay={}", property, path);
            println!("  oracle=watchdog_hang detail=family {} base scenario {} used more than {} s of CPU time without finishing (a loop that touches no seam)", fam, idx, limit_s);
            std::process::exit(1);
        }
    });
}

#[derive(Clone, Copy, PartialEq, Eq, Debug)]
pub enum Tier {
    Quick,
    Thorough,
}

impl Tier {
    pub fn name(self) -> &'static str {
        match self {
            Tier::Quick => "quick",
            Tier::Thorough => "thorough",
        }
    }
}

#[derive(Clone, Debug, PartialEq, Serialize, serde::Deserialize)]
pub struct Violation {
    pub property: String,
    /// stable identifier of the oracle clause that failed (used by the minimiser and by
    /// known-findings matching)
    pub oracle: String,
    pub detail: String,
}

pub fn viol(property: &str, oracle: &str, detail: String) -> Violation {
    Violation { property: property.to_string(), oracle: oracle.to_string(), detail }
}

/// What one execution reports.
#[derive(Default, Clone)]
pub struct RunOut {
    pub violations: Vec<Violation>,
    pub trace_hash: u64,
    pub steps: u64,
    /// counters: fault kinds fired and reach probes
    pub counters: BTreeMap<String, u64>,
    /// abstract signature of the run (see DESIGN 3.5)
    pub signature: String,
    pub nontrivial: bool,
    /// properties this execution actually exercised an oracle of
    pub props: Vec<&'static str>,
}

impl RunOut {
    pub fn count(&mut self, k: &str, n: u64) {
        if n > 0 {
            *self.counters.entry(k.to_string()).or_insert(0) += n;
        }
    }
    pub fn merge_fired(&mut self, fired: &BTreeMap<&'static str, u64>) {
        for (k, v) in fired {
            self.count(&format!("fault.{}", k), *v);
        }
    }
}

pub trait Family: Sync {
    type Scenario: Serialize + DeserializeOwned + Clone + Send;
    fn name(&self) -> &'static str;
    /// properties this family has oracles for
    fn properties(&self) -> &'static [&'static str];
    fn generate(&self, rng: &mut Rng, tier: Tier, idx: u64) -> Self::Scenario;
    /// Execute a base scenario. Families that enumerate a neighbourhood (all single-fault
    /// positions, all bit flips ...) call `emit` once per concrete scenario.
    fn execute_all(&self, base: &Self::Scenario, emit: &mut dyn FnMut(Self::Scenario, RunOut)) {
        let out = self.execute(base);
        emit(base.clone(), out);
    }
    /// Execute exactly one concrete scenario (used by replay and the minimiser).
    fn execute(&self, s: &Self::Scenario) -> RunOut;
    fn shrink(&self, _s: &Self::Scenario) -> Vec<Self::Scenario> {
        Vec::new()
    }
    /// default number of base scenarios
    fn budget(&self, tier: Tier, property: &str) -> u64;
    fn real_components(&self) -> Vec<&'static str>;
    fn simulated_components(&self) -> Vec<&'static str>;
}

#[derive(Default)]
pub struct Agg {
    pub evaluations: u64,
    pub base_scenarios: u64,
    pub steps: u64,
    pub counters: BTreeMap<String, u64>,
    pub signatures: BTreeSet<u64>,
    pub all_signatures: BTreeSet<u64>,
    pub hash_sum: u64,
    pub samples: Vec<(u64, Value)>,
    pub violations: Vec<(u64, Value, Violation, u64)>, // idx, scenario, violation, trace hash
    pub relevant_evals: u64,
    pub viol_counts: BTreeMap<String, u64>,
    pub harness_panics: u64,
    pub harness_panic_example: Option<String>,
    /// per base scenario: combined trace hash of its executions (kept for small batches only)
    pub index_hashes: BTreeMap<u64, u64>,
}

impl Agg {
    fn merge(&mut self, o: Agg) {
        self.evaluations += o.evaluations;
        self.base_scenarios += o.base_scenarios;
        self.steps += o.steps;
        self.relevant_evals += o.relevant_evals;
        for (k, v) in o.counters {
            *self.counters.entry(k).or_insert(0) += v;
        }
        self.signatures.extend(o.signatures);
        self.all_signatures.extend(o.all_signatures);
        self.hash_sum = self.hash_sum.wrapping_add(o.hash_sum);
        self.samples.extend(o.samples);
        self.violations.extend(o.violations);
        self.index_hashes.extend(o.index_hashes);
        self.harness_panics += o.harness_panics;
        if self.harness_panic_example.is_none() {
            self.harness_panic_example = o.harness_panic_example;
        }
        for (k, v) in o.viol_counts {
            *self.viol_counts.entry(k).or_insert(0) += v;
        }
    }
}

pub struct RunCfg {
    pub seed: u64,
    pub tier: Tier,
    pub property: String,
    pub workers: usize,
    pub count: u64,
    pub max_violations: usize,
    pub wall_limit_s: f64,
    /// run indices are k*stride for k in 0..count (1 = the plain batch)
    pub stride: u64,
}

/// Run `count` base scenarios of family `f` over `workers` threads. The result does not
/// depend on the worker count: everything merged is order-independent or sorted by index.
pub fn run_family<F: Family>(f: &F, cfg: &RunCfg) -> Agg {
    let next = AtomicU64::new(0);
    let stop = AtomicBool::new(false);
    let total = Mutex::new(Agg::default());
    let start = std::time::Instant::now();
    let nviol = AtomicU64::new(0);
    std::thread::scope(|sc| {
        for _ in 0..cfg.workers.max(1) {
            sc.spawn(|| {
                crate::seams::install_panic_hook_once();
                let slot = flight_slot();
                let mut agg = Agg::default();
                loop {
                    if stop.load(Ordering::Relaxed) {
                        break;
                    }
                    let k = next.fetch_add(1, Ordering::Relaxed);
                    if k >= cfg.count {
                        break;
                    }
                    let idx = k * cfg.stride.max(1);
                    // the wall limit is a safety net for the batch, never part of a verdict
                    if k % 64 == 0 && start.elapsed().as_secs_f64() > cfg.wall_limit_s {
                        stop.store(true, Ordering::Relaxed);
                        break;
                    }
                    let seed = derive_seed(cfg.seed, f.name(), idx);
                    let mut rng = Rng::new(seed);
                    let base = f.generate(&mut rng, cfg.tier, idx);
                    flight_set(slot, Some((f.name().to_string(), idx, serde_json::to_value(&base).unwrap(), Flight::now())));
                    agg.base_scenarios += 1;
                    let mut sub: u64 = 0;
                    let tb = std::time::Instant::now();
                    let guarded = std::panic::catch_unwind(std::panic::AssertUnwindSafe(|| f.execute_all(&base, &mut |sc, out| {
                        agg.evaluations += 1;
                        agg.steps += out.steps;
                        if out.props.iter().any(|p| *p == cfg.property) {
                            agg.relevant_evals += 1;
                        }
                        for (k, v) in &out.counters {
                            *agg.counters.entry(k.clone()).or_insert(0) += *v;
                        }
                        let sh = fnv64(out.signature.as_bytes());
                        agg.all_signatures.insert(sh);
                        if out.nontrivial {
                            agg.signatures.insert(sh);
                        }
                        let mut h = idx.wrapping_mul(0x9E3779B97F4A7C15) ^ sub.wrapping_mul(0xC2B2AE3D27D4EB4F);
                        h ^= out.trace_hash;
                        let hv = crate::rng::splitmix(&mut h);
                        agg.hash_sum = agg.hash_sum.wrapping_add(hv);
                        if cfg.count <= 64 {
                            let e = agg.index_hashes.entry(idx).or_insert(0);
                            *e = e.wrapping_add(hv);
                        }
                        if idx < 4 && sub < 2 {
                            agg.samples.push((
                                idx * 1000 + sub,
                                json!({"run_index": idx, "sub": sub, "seed": seed, "scenario": serde_json::to_value(&sc).unwrap(), "signature": out.signature, "trace_hash": format!("{:016x}", out.trace_hash)}),
                            ));
                        }
                        for v in &out.violations {
                            if v.property == cfg.property && cfg.max_violations > 0 {
                                nviol.fetch_add(1, Ordering::Relaxed);
                                let c = agg.viol_counts.entry(v.oracle.clone()).or_insert(0);
                                *c += 1;
                                // keep the few lowest-index cases of every oracle (per worker; merged and sorted later)
                                if *c <= 3 {
                                    agg.violations.push((idx * 100000 + sub, serde_json::to_value(&sc).unwrap(), v.clone(), out.trace_hash));
                                }
                            }
                        }
                        sub += 1;
                    })));
                    if guarded.is_err() {
                        // a panic outside run_guarded is a defect of the harness (an oracle that cannot
                        // cope with what the code under test did): never a verdict
                        agg.harness_panics += 1;
                        if agg.harness_panic_example.is_none() {
                            agg.harness_panic_example = Some(format!("family {} run_index {} scenario {}", f.name(), idx, serde_json::to_string(&base).unwrap_or_default()));
                        }
                    }
                    flight_set(slot, None);
                    if std::env::var_os("KSIM_SLOW").is_some() && tb.elapsed().as_secs_f64() > 2.0 {
                        eprintln!("slow: family {} run_index {} took {:.1}s ({} executions)", f.name(), idx, tb.elapsed().as_secs_f64(), sub);
                    }
                }
                total.lock().unwrap().merge(agg);
            });
        }
    });
    let mut t = total.into_inner().unwrap();
    t.samples.sort_by_key(|s| s.0);
    t.violations.sort_by_key(|s| s.0);
    t
}

/// Greedy minimisation: accept a candidate iff it still yields a violation with the same
/// property and oracle id.
pub fn minimise<F: Family>(f: &F, start: F::Scenario, v: &Violation, max_exec: usize) -> (F::Scenario, Violation, u64, usize) {
    let mut cur = start;
    let mut cur_v = v.clone();
    let mut cur_hash = f.execute(&cur).trace_hash;
    let mut execs = 0usize;
    'outer: loop {
        for cand in f.shrink(&cur) {
            if execs >= max_exec {
                break 'outer;
            }
            execs += 1;
            let out = f.execute(&cand);
            if let Some(v2) = out.violations.iter().find(|x| x.property == v.property && x.oracle == v.oracle) {
                cur = cand;
                cur_v = v2.clone();
                cur_hash = out.trace_hash;
                continue 'outer;
            }
        }
        break;
    }
    (cur, cur_v, cur_hash, execs)
}

//! Stream operations shared by the world-A families: one encryption or decryption of the
//! real kestrel code over scripted seams, with outcome classification.

use crate::hx::Hx;
use crate::refmodel::{format as rf, prims as rp};
use crate::seams::*;
use kestrel_crypto::errors::{DecryptError, EncryptError};
use kestrel_crypto::{AsymFileFormat, PassFileFormat, PayloadKey, PrivateKey, PublicKey};
use serde::{Deserialize, Serialize};

#[derive(Serialize, Deserialize, Clone, Debug, PartialEq)]
pub struct Plain {
    pub len: usize,
    pub fill_seed: u64,
}

impl Plain {
    /// The plaintext. Half of the seeds give PRNG bytes; the rest give content with structure that
    /// value-dependent defects key on: all zeros, all 0xFF, bytes that look like kestrel's own
    /// headers and chunk records (magic, counters, last-chunk flags, length fields), and text.
    pub fn bytes(&self) -> Vec<u8> {
        let n = self.len;
        match self.fill_seed % 8 {
            4 => vec![0u8; n],
            5 => vec![0xffu8; n],
            6 => {
                let mut v = Vec::with_capacity(n + 32);
                v.extend_from_slice(if self.fill_seed & 8 == 0 { &[0x65, 0x67, 0x6b, 0x10] } else { &[0x65, 0x67, 0x6b, 0x20] });
                let mut ctr = 0u64;
                while v.len() < n {
                    v.extend_from_slice(&ctr.to_be_bytes());
                    v.extend_from_slice(&((ctr % 3 == 2) as u32).to_be_bytes());
                    v.extend_from_slice(&(if ctr % 2 == 0 { 0u32 } else { 65536 }).to_be_bytes());
                    ctr += 1;
                }
                v.truncate(n);
                v
            }
            7 => {
                let line = b"[Key]\nName = plaintext that looks like a keyring\r\n\tPublicKey = AAAA\n";
                line.iter().cycle().take(n).copied().collect()
            }
            _ => crate::rng::fill(n, self.fill_seed),
        }
    }
}

#[derive(Serialize, Deserialize, Clone, Debug, PartialEq)]
pub enum Mode {
    /// the private chunk loops through the verif hook: harness-chosen key, aad, chunk size
    Hook { key: Hx, aad: Hx, cs: u32 },
    /// public key_encrypt / key_decrypt at the production chunk size
    Key {
        s_priv: Hx,
        r_priv: Hx,
        e_priv: Option<Hx>,
        payload: Option<Hx>,
        /// pass Some(ephemeral private) but None for its public key (the documented contract then
        /// generates a fresh ephemeral pair, so randomness is implementation-chosen)
        #[serde(default)]
        omit_e_pub: bool,
    },
    /// public pass_encrypt / pass_decrypt
    Pass { password: Hx, salt: Hx },
}

impl Mode {
    pub fn class(&self) -> String {
        match self {
            Mode::Hook { cs, aad, .. } => format!("hook{}{}", cs, if aad.0.is_empty() { "" } else { "a" }),
            Mode::Key { e_priv, omit_e_pub, .. } => format!("key{}{}", if e_priv.is_some() { "F" } else { "R" }, if *omit_e_pub { "o" } else { "" }),
            Mode::Pass { .. } => "pass".into(),
        }
    }
    pub fn cs(&self) -> usize {
        match self {
            Mode::Hook { cs, .. } => *cs as usize,
            _ => 65536,
        }
    }
    pub fn header_len(&self) -> usize {
        match self {
            Mode::Hook { .. } => 0,
            Mode::Key { .. } => 132,
            Mode::Pass { .. } => 36,
        }
    }
}

#[derive(Clone, Copy, Debug, PartialEq, Eq)]
pub enum Side {
    Read,
    Write,
    Neither,
}

#[derive(Clone, Debug, PartialEq)]
pub struct ErrInfo {
    pub variant: String,
    pub message: String,
    pub side: Side,
}

fn side_from_msg(m: &str) -> Side {
    let l = m.to_lowercase();
    let r = l.contains("read");
    let w = l.contains("write") || l.contains("flush");
    match (r, w) {
        (true, false) => Side::Read,
        (false, true) => Side::Write,
        _ => Side::Neither,
    }
}

pub fn classify_enc(e: &EncryptError) -> ErrInfo {
    let (variant, side) = match e {
        EncryptError::UnexpectedData => ("UnexpectedData", Side::Neither),
        EncryptError::IORead(_) => ("IORead", Side::Read),
        EncryptError::IOWrite(_) => ("IOWrite", Side::Write),
        EncryptError::Other(m) => ("Other", side_from_msg(m)),
    };
    ErrInfo { variant: variant.into(), message: e.to_string(), side }
}

pub fn classify_dec(e: &DecryptError) -> ErrInfo {
    let (variant, side) = match e {
        DecryptError::ChunkLen => ("ChunkLen", Side::Neither),
        DecryptError::ChaPolyDecrypt => ("ChaPolyDecrypt", Side::Neither),
        DecryptError::UnexpectedData => ("UnexpectedData", Side::Neither),
        DecryptError::IORead(_) => ("IORead", Side::Read),
        DecryptError::IOWrite(_) => ("IOWrite", Side::Write),
        DecryptError::Other(m) => ("Other", side_from_msg(m)),
    };
    ErrInfo { variant: variant.into(), message: e.to_string(), side }
}

#[derive(Clone, Debug, PartialEq)]
pub enum Outcome {
    /// Ok; for key decryption the reported sender public key
    Ok(Option<Vec<u8>>),
    Err(ErrInfo),
    Panic(String),
    Hang,
}

impl Outcome {
    pub fn class(&self) -> String {
        match self {
            Outcome::Ok(_) => "ok".into(),
            Outcome::Err(e) => format!("err:{}", e.variant),
            Outcome::Panic(_) => "panic".into(),
            Outcome::Hang => "hang".into(),
        }
    }
    pub fn is_ok(&self) -> bool {
        matches!(self, Outcome::Ok(_))
    }
}

pub struct OpRun {
    pub outcome: Outcome,
    pub sink: Vec<u8>,
    pub reads: usize,
    pub writes: usize,
    pub flushes: usize,
    pub src_pos: usize,
    pub src_len: usize,
}

pub fn pubkey_of(sk: &[u8; 32]) -> [u8; 32] {
    rp::x25519_base(sk)
}

pub fn budget_for(len: usize, min_cap: usize) -> u64 {
    2000 + 40 * (len as u64 / min_cap.max(1) as u64 + 1)
}

/// One encryption of `pt` under `mode` through scripted seams.
pub fn run_encrypt(mode: &Mode, pt: &[u8], rs: &ReadScript, ws: &WriteScript, trace: &TraceRef) -> OpRun {
    let mut src = ScriptedSource::new(pt, rs.clone(), trace.clone());
    let mut sink = ScriptedSink::new(ws.clone(), trace.clone());
    let g = run_guarded(|| match mode {
        Mode::Hook { key, aad, cs } => {
            kestrel_crypto::encrypt::verif_encrypt_chunks(&mut src, &mut sink, &key.0, &aad.0, *cs)
        }
        Mode::Key { s_priv, r_priv, e_priv, payload, omit_e_pub } => {
            let s = PrivateKey::try_from(&s_priv.0[..]).unwrap();
            let spk = PublicKey::try_from(&pubkey_of(&s_priv.a32())[..]).unwrap();
            let rpk = PublicKey::try_from(&pubkey_of(&r_priv.a32())[..]).unwrap();
            let e = e_priv.as_ref().map(|e| PrivateKey::try_from(&e.0[..]).unwrap());
            let epk = if *omit_e_pub { None } else { e_priv.as_ref().map(|e| PublicKey::try_from(&pubkey_of(&e.a32())[..]).unwrap()) };
            let pk = payload.as_ref().map(|p| PayloadKey::new(&p.0));
            kestrel_crypto::encrypt::key_encrypt(
                &mut src,
                &mut sink,
                &s,
                &spk,
                &rpk,
                e.as_ref(),
                epk.as_ref(),
                pk.as_ref(),
                AsymFileFormat::V1,
            )
        }
        Mode::Pass { password, salt } => {
            kestrel_crypto::encrypt::pass_encrypt(&mut src, &mut sink, &password.0, salt.a32(), PassFileFormat::V1)
        }
    });
    let outcome = match g {
        Guarded::Returned(Ok(())) => Outcome::Ok(None),
        Guarded::Returned(Err(e)) => Outcome::Err(classify_enc(&e)),
        Guarded::Panicked(s) => Outcome::Panic(s),
        Guarded::Hang => Outcome::Hang,
    };
    OpRun {
        outcome,
        reads: src.calls,
        writes: sink.calls,
        flushes: sink.flush_calls,
        src_pos: src.pos,
        src_len: pt.len(),
        sink: sink.accepted,
    }
}

/// One decryption of `ct` under `mode`. `password_override` lets pass mode try another password.
pub fn run_decrypt(
    mode: &Mode,
    ct: &[u8],
    rs: &ReadScript,
    ws: &WriteScript,
    trace: &TraceRef,
    monitor: Option<ReleaseMonitor>,
    password_override: Option<&[u8]>,
) -> OpRun {
    let mut src = ScriptedSource::new(ct, rs.clone(), trace.clone());
    let mut sink = ScriptedSink::new(ws.clone(), trace.clone());
    sink.monitor = monitor;
    let g = run_guarded(|| match mode {
        Mode::Hook { key, aad, cs } => {
            kestrel_crypto::decrypt::verif_decrypt_chunks(&mut src, &mut sink, &key.0, &aad.0, *cs).map(|_| None)
        }
        Mode::Key { r_priv, .. } => {
            let r = PrivateKey::try_from(&r_priv.0[..]).unwrap();
            let rpk = PublicKey::try_from(&pubkey_of(&r_priv.a32())[..]).unwrap();
            kestrel_crypto::decrypt::key_decrypt(&mut src, &mut sink, &r, &rpk, AsymFileFormat::V1)
                .map(|pk| Some(pk.as_bytes().to_vec()))
        }
        Mode::Pass { password, .. } => {
            let pw = password_override.unwrap_or(&password.0);
            kestrel_crypto::decrypt::pass_decrypt(&mut src, &mut sink, pw, PassFileFormat::V1).map(|_| None)
        }
    });
    let outcome = match g {
        Guarded::Returned(Ok(s)) => Outcome::Ok(s),
        Guarded::Returned(Err(e)) => Outcome::Err(classify_dec(&e)),
        Guarded::Panicked(s) => Outcome::Panic(s),
        Guarded::Hang => Outcome::Hang,
    };
    OpRun {
        outcome,
        reads: src.calls,
        writes: sink.calls,
        flushes: sink.flush_calls,
        src_pos: src.pos,
        src_len: ct.len(),
        sink: sink.accepted,
    }
}

/// The executable specification's file for (mode, pt, chunk sizes). Requires fixed randomness.
pub fn reference_file(mode: &Mode, pt: &[u8], sizes: &[usize], scrypt_cache: &mut dyn FnMut(&[u8], &[u8; 32]) -> [u8; 32]) -> Option<Vec<u8>> {
    match mode {
        Mode::Hook { key, aad, .. } => {
            let mut out = Vec::new();
            rf::write_chunks(&mut out, &key.a32(), &aad.0, pt, sizes);
            Some(out)
        }
        Mode::Key { s_priv, r_priv, e_priv: Some(e), payload: Some(p), omit_e_pub: false } => {
            let s = s_priv.a32();
            let e = e.a32();
            Some(rf::write_key_file(
                &rf::KeyParams {
                    s_priv: &s,
                    s_pub_claimed: &pubkey_of(&s),
                    e_priv: &e,
                    e_pub: &pubkey_of(&e),
                    recipient: &pubkey_of(&r_priv.a32()),
                    payload_key: &p.a32(),
                },
                pt,
                sizes,
            ))
        }
        Mode::Key { .. } => None,
        Mode::Pass { password, salt } => {
            let k = scrypt_cache(&password.0, &salt.a32());
            Some(rf::write_pass_file(&k, &salt.a32(), pt, sizes))
        }
    }
}

/// Reference verdict for an arbitrary byte string presented under `mode`.
pub fn reference_verdict(mode: &Mode, f: &[u8], scrypt_cache: &mut dyn FnMut(&[u8], &[u8; 32]) -> [u8; 32]) -> (rf::ChunkVerdict, Option<[u8; 32]>) {
    match mode {
        Mode::Hook { key, aad, cs } => (rf::accept_chunks(f, 0, &key.a32(), &aad.0, *cs as usize), None),
        Mode::Key { r_priv, .. } => {
            let r = r_priv.a32();
            let v = rf::accept_key_file(f, &r, &pubkey_of(&r));
            (v.chunks, v.sender)
        }
        Mode::Pass { password, .. } => {
            let pw = password.0.clone();
            (rf::accept_pass_file(f, &mut |salt| scrypt_cache(&pw, salt)), None)
        }
    }
}

thread_local! {
    static SCRYPT_CACHE: std::cell::RefCell<std::collections::BTreeMap<(Vec<u8>, [u8; 32]), [u8; 32]>> = const { std::cell::RefCell::new(std::collections::BTreeMap::new()) };
}

/// Reference scrypt with a per-thread cache (reference side only; kestrel always recomputes).
pub fn ref_scrypt_cached(password: &[u8], salt: &[u8; 32]) -> [u8; 32] {
    let k = (password.to_vec(), *salt);
    if let Some(v) = SCRYPT_CACHE.with(|c| c.borrow().get(&k).copied()) {
        return v;
    }
    let v = crate::refmodel::scrypt::product(password, salt);
    SCRYPT_CACHE.with(|c| {
        let mut c = c.borrow_mut();
        if c.len() > 256 {
            c.clear();
        }
        c.insert(k, v);
    });
    v
}

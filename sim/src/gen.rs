//! Shared generators: modes, plaintext lengths biased to chunk boundaries, read/write
//! script classes, passwords.

use crate::engine::Tier;
use crate::hx::Hx;
use crate::ops::{Mode, Plain};
use crate::rng::Rng;

pub const SMALL_CS: [u32; 9] = [1, 2, 3, 4, 7, 8, 16, 64, 4096];

pub fn gen_len(rng: &mut Rng, cs: usize, max_chunks: u64) -> usize {
    match rng.below(10) {
        0 => 0,
        1 => 1,
        2..=6 => {
            let k = rng.range(1, max_chunks) as usize;
            let base = k * cs;
            match rng.below(3) {
                0 => base.saturating_sub(1),
                1 => base,
                _ => base + 1,
            }
        }
        _ => rng.range(0, max_chunks * cs as u64 + 3) as usize,
    }
}

pub fn len_class(len: usize, cs: usize) -> String {
    if len == 0 {
        return "0".into();
    }
    let k = len / cs;
    let r = len % cs;
    let kc = if k >= 3 { "3+".to_string() } else { k.to_string() };
    let rc = if r == 0 {
        "=0"
    } else if r == 1 {
        "+1"
    } else if r == cs - 1 {
        "-1"
    } else {
        "+r"
    };
    format!("{}{}", kc, rc)
}

/// Script classes: 0 full, 1 all ones, 2 constant c, 3 random caps, 4 "cs then 1",
/// 5 "cs-1 then 1", 6 random small/large mix
pub fn gen_caps(rng: &mut Rng, cs: usize) -> (Vec<usize>, u8) {
    let class = rng.below(7) as u8;
    let caps = match class {
        0 => vec![],
        1 => vec![1],
        2 => vec![rng.range(2, (cs as u64 + 2).max(3)) as usize],
        3 => (0..rng.range(2, 8)).map(|_| rng.range(1, (2 * cs as u64).max(2)) as usize).collect(),
        4 => vec![cs, 1],
        5 => vec![cs.saturating_sub(1).max(1), 1],
        _ => (0..rng.range(2, 6)).map(|_| if rng.chance(1, 2) { 1 + rng.usize_below(3) } else { cs + rng.usize_below(17) }).collect(),
    };
    (caps, class)
}

pub fn gen_hook_mode(rng: &mut Rng, pass_aad: bool) -> Mode {
    let cs = *rng.pick(&SMALL_CS);
    Mode::Hook {
        key: Hx(rng.bytes(32)),
        aad: Hx(if pass_aad { vec![0x65, 0x67, 0x6b, 0x20] } else { vec![] }),
        cs,
    }
}

/// X25519 private key from the run PRNG.
pub fn gen_sk(rng: &mut Rng) -> [u8; 32] {
    rng.arr32()
}

pub fn gen_key_mode(rng: &mut Rng, fixed_randomness: bool) -> Mode {
    Mode::Key {
        s_priv: Hx(gen_sk(rng).to_vec()),
        r_priv: Hx(gen_sk(rng).to_vec()),
        e_priv: if fixed_randomness { Some(Hx(gen_sk(rng).to_vec())) } else { None },
        payload: if fixed_randomness { Some(Hx(rng.bytes(32))) } else { None },
        omit_e_pub: false,
    }
}

pub fn gen_password(rng: &mut Rng) -> Vec<u8> {
    let mut p = gen_password_body(rng);
    // a sixth of the passwords end with a line terminator or a blank (a password read from a file or
    // pasted): those bytes are part of the password. Derived from the password itself, not drawn.
    let h = crate::rng::fnv64(&p);
    if h % 6 == 0 && p.len() != 63 && p.len() != 64 {
        p.extend_from_slice(match (h >> 8) % 4 {
            0 => b"\n",
            1 => b"\r\n",
            2 => b"\r",
            _ => b" ",
        });
    }
    p
}

fn gen_password_body(rng: &mut Rng) -> Vec<u8> {
    match rng.below(9) {
        0 => vec![],
        1 => vec![b'a'],
        2 => rng.bytes(63).iter().map(|b| b'a' + b % 26).collect(),
        3 => rng.bytes(64).iter().map(|b| b'a' + b % 26).collect(),
        4 => rng.bytes(65).iter().map(|b| b'a' + b % 26).collect(),
        5 => rng.bytes(200).iter().map(|b| b' ' + b % 90).collect(),
        6 => "pässwörd-パスワード-🔑".as_bytes().to_vec(),
        7 => {
            let n = rng.range(1, 24) as usize;
            rng.bytes(n)
        }
        _ => {
            let n = rng.range(4, 16) as usize;
            rng.bytes(n).iter().map(|b| b'!' + b % 90).collect()
        }
    }
}

pub fn gen_pass_mode(rng: &mut Rng) -> Mode {
    Mode::Pass { password: Hx(gen_password(rng)), salt: Hx(rng.bytes(32)) }
}

pub fn gen_plain(rng: &mut Rng, cs: usize, max_chunks: u64) -> Plain {
    Plain { len: gen_len(rng, cs, max_chunks), fill_seed: rng.next_u64() }
}

/// A legal chunking of `len` bytes into chunks of 1..=cs bytes.
pub fn gen_chunking(rng: &mut Rng, len: usize, cs: usize) -> Vec<usize> {
    let mut out = Vec::new();
    let mut left = len;
    let style = rng.below(4);
    while left > 0 {
        let s = match style {
            0 => cs,
            1 => 1,
            2 => rng.range(1, cs as u64) as usize,
            _ => {
                if rng.chance(1, 2) {
                    cs
                } else {
                    rng.range(1, 3.min(cs as u64)) as usize
                }
            }
        }
        .min(left)
        .max(1);
        out.push(s);
        left -= s;
    }
    out
}

/// The chunking the encryptor produces when every read fills the buffer.
pub fn full_chunking(len: usize, cs: usize) -> Vec<usize> {
    let mut out = Vec::new();
    let mut left = len;
    while left > 0 {
        let s = cs.min(left);
        out.push(s);
        left -= s;
    }
    out
}

pub fn tier_mul(t: Tier) -> u64 {
    match t {
        Tier::Quick => 1,
        Tier::Thorough => 20,
    }
}

pub fn name_class(n: &str) -> &'static str {
    if n.contains('\t') {
        "tab"
    } else if n.len() == 128 {
        "128"
    } else if n.contains('=') {
        "equals"
    } else if n.contains('#') {
        "hash"
    } else if n.contains("[Key]") {
        "section"
    } else if !n.is_ascii() {
        "unicode"
    } else if n.contains(' ') {
        "space"
    } else {
        "plain"
    }
}

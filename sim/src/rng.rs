//! The one PRNG: xoshiro256** seeded through splitmix64. Every choice of a run is drawn
//! from one instance seeded with derive_seed(VERIF_SEED, family, run_index).

#[derive(Clone)]
pub struct Rng {
    s: [u64; 4],
}

pub fn splitmix(x: &mut u64) -> u64 {
    *x = x.wrapping_add(0x9E3779B97F4A7C15);
    let mut z = *x;
    z = (z ^ (z >> 30)).wrapping_mul(0xBF58476D1CE4E5B9);
    z = (z ^ (z >> 27)).wrapping_mul(0x94D049BB133111EB);
    z ^ (z >> 31)
}

pub fn fnv64(data: &[u8]) -> u64 {
    let mut h: u64 = 0xcbf29ce484222325;
    for b in data {
        h ^= *b as u64;
        h = h.wrapping_mul(0x100000001b3);
    }
    h
}

pub fn derive_seed(verif_seed: u64, family: &str, idx: u64) -> u64 {
    let mut x = verif_seed ^ fnv64(family.as_bytes()).rotate_left(17);
    let a = splitmix(&mut x);
    let mut y = a ^ idx.wrapping_mul(0xD1342543DE82EF95);
    splitmix(&mut y)
}

impl Rng {
    pub fn new(seed: u64) -> Rng {
        let mut x = seed;
        Rng { s: [splitmix(&mut x), splitmix(&mut x), splitmix(&mut x), splitmix(&mut x)] }
    }
    pub fn next_u64(&mut self) -> u64 {
        let r = self.s[1].wrapping_mul(5).rotate_left(7).wrapping_mul(9);
        let t = self.s[1] << 17;
        self.s[2] ^= self.s[0];
        self.s[3] ^= self.s[1];
        self.s[1] ^= self.s[2];
        self.s[0] ^= self.s[3];
        self.s[2] ^= t;
        self.s[3] = self.s[3].rotate_left(45);
        r
    }
    /// uniform in 0..n (n > 0)
    pub fn below(&mut self, n: u64) -> u64 {
        assert!(n > 0);
        // multiply-shift; bias negligible for our n
        ((self.next_u64() as u128 * n as u128) >> 64) as u64
    }
    pub fn usize_below(&mut self, n: usize) -> usize {
        self.below(n as u64) as usize
    }
    /// uniform in lo..=hi
    pub fn range(&mut self, lo: u64, hi: u64) -> u64 {
        lo + self.below(hi - lo + 1)
    }
    pub fn chance(&mut self, num: u64, den: u64) -> bool {
        self.below(den) < num
    }
    pub fn bytes(&mut self, n: usize) -> Vec<u8> {
        let mut v = Vec::with_capacity(n + 8);
        while v.len() < n {
            v.extend_from_slice(&self.next_u64().to_le_bytes());
        }
        v.truncate(n);
        v
    }
    pub fn arr32(&mut self) -> [u8; 32] {
        let mut a = [0u8; 32];
        a.copy_from_slice(&self.bytes(32));
        a
    }
    pub fn pick<'a, T>(&mut self, xs: &'a [T]) -> &'a T {
        &xs[self.usize_below(xs.len())]
    }
}

/// Deterministic plaintext of length len from fill_seed.
pub fn fill(len: usize, fill_seed: u64) -> Vec<u8> {
    Rng::new(fill_seed ^ 0xA5A5_5A5A_1234_5678).bytes(len)
}

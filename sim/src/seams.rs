//! Seams S1 (Read), S2 (Write), S4 (entropy), the AEAD seal observer and panic capture.
//! All of them append to one Trace with a global event sequence number.

use crate::rng::fnv64;
use serde::{Deserialize, Serialize};
use std::cell::RefCell;
use std::collections::BTreeMap;
use std::io::{self, ErrorKind, Read, Write};
use std::rc::Rc;

#[derive(Serialize, Deserialize, Clone, Copy, Debug, PartialEq, Eq, PartialOrd, Ord)]
pub enum IoFault {
    /// ErrorKind::Interrupted (EINTR): transient
    Interrupted,
    /// a hard error (EIO on read, ENOSPC on write)
    Hard,
    /// ErrorKind::WouldBlock (EAGAIN on a non-blocking descriptor)
    WouldBlock,
    /// write() returns Ok(0) for a non-empty buffer
    Zero,
    /// read() returns Ok(0) although more data follows (a tty after ^D, a file that is still growing):
    /// the source signals end of input early, once
    EarlyEof,
}

impl IoFault {
    pub fn to_err(self, side: &str) -> io::Error {
        match self {
            IoFault::Interrupted => io::Error::new(ErrorKind::Interrupted, format!("sim: EINTR on {}", side)),
            IoFault::Hard => io::Error::new(ErrorKind::Other, format!("sim: hard I/O error on {}", side)),
            IoFault::WouldBlock => io::Error::new(ErrorKind::WouldBlock, format!("sim: EAGAIN on {}", side)),
            IoFault::Zero | IoFault::EarlyEof => unreachable!(),
        }
    }
    pub fn transient(self) -> bool {
        matches!(self, IoFault::Interrupted)
    }
}

#[derive(Serialize, Deserialize, Clone, Debug, Default, PartialEq)]
pub struct ReadScript {
    /// cap for the k-th *successful* read (cycled); empty = always fill the buffer
    pub caps: Vec<usize>,
    /// (call index, fault): the call with that index (0-based, counting every read call) fails
    pub faults: Vec<(usize, IoFault)>,
}

#[derive(Serialize, Deserialize, Clone, Debug, Default, PartialEq)]
pub struct WriteScript {
    pub caps: Vec<usize>,
    pub faults: Vec<(usize, IoFault)>,
    pub flush_faults: Vec<(usize, IoFault)>,
}

#[derive(Clone, Debug, PartialEq)]
pub enum Ev {
    Read { req: usize, got: usize, pos: usize },
    ReadFault { call: usize, kind: IoFault },
    Write { offered: usize, accepted: usize, total: usize },
    WriteFault { call: usize, kind: IoFault },
    Flush,
    FlushFault { call: usize, kind: IoFault },
    Entropy { len: usize, digest: u64 },
    Seal { key_tag: u64, nonce: u64 },
    Note(String),
}

/// The event log of one run. `hash` covers every event whether or not `events` is kept.
pub struct Trace {
    pub seq: u64,
    pub hash: u64,
    pub keep: bool,
    pub events: Vec<(u64, Ev)>,
    pub src_pos: usize,
    pub nonempty_reads: u64,
    pub read_sizes: Vec<usize>,
    pub budget: u64,
    pub budget_exceeded: bool,
    pub fired: BTreeMap<&'static str, u64>,
    pub monitor_violation: Option<String>,
    /// every injected fault that actually fired: (seam 'r'/'w'/'f', call index, kind)
    pub fault_log: Vec<(char, usize, IoFault)>,
}

pub type TraceRef = Rc<RefCell<Trace>>;

pub struct BudgetExceeded;

impl Trace {
    pub fn new(budget: u64, keep: bool) -> TraceRef {
        Rc::new(RefCell::new(Trace {
            seq: 0,
            hash: 0x1234_5678_9abc_def0,
            keep,
            events: Vec::new(),
            src_pos: 0,
            nonempty_reads: 0,
            read_sizes: Vec::new(),
            budget,
            budget_exceeded: false,
            fired: BTreeMap::new(),
            monitor_violation: None,
            fault_log: Vec::new(),
        }))
    }
    pub fn push(&mut self, ev: Ev) {
        self.seq += 1;
        let s = format!("{}:{:?}", self.seq, ev);
        self.hash = (self.hash.rotate_left(5) ^ fnv64(s.as_bytes())).wrapping_mul(0x9E3779B97F4A7C15);
        if self.keep && self.events.len() < 4096 {
            self.events.push((self.seq, ev));
        }
    }
    pub fn fire(&mut self, k: &'static str) {
        *self.fired.entry(k).or_insert(0) += 1;
    }
    pub fn note(&mut self, s: &str) {
        self.push(Ev::Note(s.to_string()));
    }
    fn step(&mut self) {
        if self.seq > self.budget {
            self.budget_exceeded = true;
        }
    }
}

fn check_budget(t: &TraceRef) {
    let over = {
        let mut tr = t.borrow_mut();
        tr.step();
        tr.budget_exceeded
    };
    if over {
        // unwinds out of the code under test; caught by run_guarded and reported as a hang
        std::panic::resume_unwind(Box::new(BudgetExceeded));
    }
}

pub struct ScriptedSource<'a> {
    pub data: &'a [u8],
    pub pos: usize,
    pub script: ReadScript,
    pub calls: usize,
    pub ok_reads: usize,
    pub trace: TraceRef,
}

impl<'a> ScriptedSource<'a> {
    pub fn new(data: &'a [u8], script: ReadScript, trace: TraceRef) -> Self {
        trace.borrow_mut().src_pos = 0;
        ScriptedSource { data, pos: 0, script, calls: 0, ok_reads: 0, trace }
    }
}

impl<'a> Read for ScriptedSource<'a> {
    fn read(&mut self, buf: &mut [u8]) -> io::Result<usize> {
        let _harness = crate::alloc::PauseGuard::new();
        check_budget(&self.trace);
        let call = self.calls;
        self.calls += 1;
        if let Some((_, kind)) = self.script.faults.iter().find(|(c, _)| *c == call) {
            let kind = *kind;
            let mut t = self.trace.borrow_mut();
            t.push(Ev::ReadFault { call, kind });
            t.fault_log.push(('r', call, kind));
            t.fire(match kind {
                IoFault::Interrupted => "read_eintr",
                IoFault::Hard => "read_hard",
                IoFault::WouldBlock => "read_wouldblock",
                IoFault::Zero => "read_zero",
                IoFault::EarlyEof => "read_early_eof",
            });
            if kind == IoFault::EarlyEof {
                t.read_sizes.push(0);
                return Ok(0);
            }
            return Err(kind.to_err("read"));
        }
        let remaining = self.data.len() - self.pos;
        let mut n = buf.len().min(remaining);
        if !self.script.caps.is_empty() && n > 0 {
            let cap = self.script.caps[self.ok_reads % self.script.caps.len()].max(1);
            if cap < n {
                n = cap;
                self.trace.borrow_mut().fire("short_read");
            }
        }
        buf[..n].copy_from_slice(&self.data[self.pos..self.pos + n]);
        self.pos += n;
        if !buf.is_empty() {
            self.ok_reads += 1;
        }
        let mut t = self.trace.borrow_mut();
        t.src_pos = self.pos;
        if n > 0 {
            t.nonempty_reads += 1;
        }
        t.read_sizes.push(n);
        t.push(Ev::Read { req: buf.len(), got: n, pos: self.pos });
        Ok(n)
    }
}

/// Online monitor for "only authenticated plaintext is released" (C04): the bytes *offered*
/// to the sink must extend it to a prefix of the plaintext of authenticated records that
/// the reader has already consumed completely.
pub struct ReleaseMonitor {
    /// (file offset one past record j, cumulative plaintext length through record j)
    pub recs: Vec<(usize, usize)>,
    pub auth_plain: Vec<u8>,
}

pub struct ScriptedSink {
    pub accepted: Vec<u8>,
    /// bytes offered so far per position (offered may exceed accepted by a partial write)
    pub max_offered_end: usize,
    pub script: WriteScript,
    pub calls: usize,
    pub ok_writes: usize,
    pub flush_calls: usize,
    pub trace: TraceRef,
    pub monitor: Option<ReleaseMonitor>,
    pub write_calls_total: usize,
}

impl ScriptedSink {
    pub fn new(script: WriteScript, trace: TraceRef) -> Self {
        ScriptedSink {
            accepted: Vec::new(),
            max_offered_end: 0,
            script,
            calls: 0,
            ok_writes: 0,
            flush_calls: 0,
            trace,
            monitor: None,
            write_calls_total: 0,
        }
    }
}

impl Write for ScriptedSink {
    fn write(&mut self, buf: &[u8]) -> io::Result<usize> {
        let _harness = crate::alloc::PauseGuard::new();
        check_budget(&self.trace);
        let call = self.calls;
        self.calls += 1;
        self.write_calls_total += 1;
        // the release monitor looks at what is offered, before any fault decides its fate
        if let Some(m) = &self.monitor {
            let pos = self.trace.borrow().src_pos;
            // recs are in file order: ends and cumulative lengths are non-decreasing
            let idx = m.recs.partition_point(|(end, _)| *end <= pos);
            let allowed = if idx == 0 { 0 } else { m.recs[idx - 1].1 };
            let start = self.accepted.len();
            let end = start + buf.len();
            let ok = end <= allowed && end <= m.auth_plain.len() && m.auth_plain[start..end] == *buf;
            if !ok && !buf.is_empty() {
                let mut t = self.trace.borrow_mut();
                if t.monitor_violation.is_none() {
                    t.monitor_violation = Some(format!(
                        "write call {} offers {} bytes at sink offset {} but only {} bytes of authenticated, fully-read plaintext exist (source position {})",
                        call, buf.len(), start, allowed, pos
                    ));
                }
            }
        }
        if let Some((_, kind)) = self.script.faults.iter().find(|(c, _)| *c == call) {
            let kind = *kind;
            let mut t = self.trace.borrow_mut();
            t.push(Ev::WriteFault { call, kind });
            t.fault_log.push(('w', call, kind));
            t.fire(match kind {
                IoFault::Interrupted => "write_eintr",
                IoFault::Hard => "write_hard",
                IoFault::WouldBlock => "write_wouldblock",
                IoFault::Zero => "write_zero",
                IoFault::EarlyEof => "write_zero",
            });
            if kind == IoFault::Zero {
                if buf.is_empty() {
                    return Ok(0);
                }
                return Ok(0);
            }
            return Err(kind.to_err("write"));
        }
        let mut n = buf.len();
        if !self.script.caps.is_empty() && n > 0 {
            let cap = self.script.caps[self.ok_writes % self.script.caps.len()].max(1);
            if cap < n {
                n = cap;
                self.trace.borrow_mut().fire("partial_write");
            }
        }
        self.accepted.extend_from_slice(&buf[..n]);
        self.ok_writes += 1;
        let total = self.accepted.len();
        self.trace.borrow_mut().push(Ev::Write { offered: buf.len(), accepted: n, total });
        Ok(n)
    }

    fn flush(&mut self) -> io::Result<()> {
        let _harness = crate::alloc::PauseGuard::new();
        check_budget(&self.trace);
        let call = self.flush_calls;
        self.flush_calls += 1;
        if let Some((_, kind)) = self.script.flush_faults.iter().find(|(c, _)| *c == call) {
            let kind = *kind;
            let mut t = self.trace.borrow_mut();
            t.push(Ev::FlushFault { call, kind });
            t.fault_log.push(('f', call, kind));
            t.fire(match kind {
                IoFault::Interrupted => "flush_eintr",
                _ => "flush_hard",
            });
            return Err(kind.to_err("flush"));
        }
        self.trace.borrow_mut().push(Ev::Flush);
        Ok(())
    }
}

// ---------------------------------------------------------------------------------------
// Panic capture

thread_local! {
    static PANIC_INFO: RefCell<Option<String>> = const { RefCell::new(None) };
    static QUIET: std::cell::Cell<bool> = const { std::cell::Cell::new(false) };
}

static HOOK_ONCE: std::sync::Once = std::sync::Once::new();

pub fn install_panic_hook_once() {
    HOOK_ONCE.call_once(install_panic_hook);
}

fn install_panic_hook() {
    let default = std::panic::take_hook();
    std::panic::set_hook(Box::new(move |info| {
        let quiet = QUIET.with(|q| q.get());
        if quiet {
            let loc = info.location().map(|l| format!("{}:{}", l.file(), l.line())).unwrap_or_default();
            let msg = if let Some(s) = info.payload().downcast_ref::<&str>() {
                s.to_string()
            } else if let Some(s) = info.payload().downcast_ref::<String>() {
                s.clone()
            } else {
                "<non-string panic>".to_string()
            };
            PANIC_INFO.with(|p| *p.borrow_mut() = Some(format!("{} at {}", msg, loc)));
        } else {
            default(info);
        }
    }));
}

#[derive(Debug, Clone, PartialEq)]
pub enum Guarded<T> {
    Returned(T),
    Panicked(String),
    Hang,
}

/// Run code under test: panics are captured (with location), budget overruns become Hang.
pub fn run_guarded<T>(f: impl FnOnce() -> T) -> Guarded<T> {
    QUIET.with(|q| q.set(true));
    PANIC_INFO.with(|p| *p.borrow_mut() = None);
    let r = std::panic::catch_unwind(std::panic::AssertUnwindSafe(f));
    QUIET.with(|q| q.set(false));
    match r {
        Ok(v) => Guarded::Returned(v),
        Err(payload) => {
            if payload.downcast_ref::<BudgetExceeded>().is_some() {
                Guarded::Hang
            } else {
                let info = PANIC_INFO.with(|p| p.borrow_mut().take());
                Guarded::Panicked(info.unwrap_or_else(|| "<panic without info>".into()))
            }
        }
    }
}

// ---------------------------------------------------------------------------------------
// Entropy seam (S4) and seal observer, both through the `verif` hooks of kestrel-crypto.

pub struct EntropyLog {
    pub draws: Vec<Vec<u8>>,
}

/// Install an entropy stream SHA-256(tag || counter): never repeats within a run.
pub fn install_entropy(tag: u64, trace: TraceRef) -> Rc<RefCell<EntropyLog>> {
    let log = Rc::new(RefCell::new(EntropyLog { draws: Vec::new() }));
    let l2 = log.clone();
    let mut ctr: u64 = 0;
    kestrel_crypto::verif::set_entropy_source(Some(Box::new(move |buf: &mut [u8]| {
        let _harness = crate::alloc::PauseGuard::new();
        let mut off = 0;
        while off < buf.len() {
            let mut block = tag.to_be_bytes().to_vec();
            block.extend_from_slice(&ctr.to_be_bytes());
            ctr += 1;
            let d = crate::refmodel::prims::sha256(&block);
            let n = (buf.len() - off).min(32);
            buf[off..off + n].copy_from_slice(&d[..n]);
            off += n;
        }
        l2.borrow_mut().draws.push(buf.to_vec());
        let mut t = trace.borrow_mut();
        t.push(Ev::Entropy { len: buf.len(), digest: fnv64(buf) });
        t.fire("entropy_draw");
    })));
    log
}

pub fn remove_entropy() {
    kestrel_crypto::verif::set_entropy_source(None);
}

/// (key, nonce) -> digest of (aad, plaintext); a second, different message under the same
/// pair is a nonce reuse.
pub struct SealLog {
    pub seen: BTreeMap<(Vec<u8>, Vec<u8>), u64>,
    pub seals: u64,
    pub reuse: Option<String>,
}

pub fn install_seal_observer(trace: TraceRef) -> Rc<RefCell<SealLog>> {
    let log = Rc::new(RefCell::new(SealLog { seen: BTreeMap::new(), seals: 0, reuse: None }));
    let l2 = log.clone();
    kestrel_crypto::verif::set_seal_observer(Some(Box::new(move |key: &[u8], nonce: &[u8], aad: &[u8], pt: &[u8]| {
        let _harness = crate::alloc::PauseGuard::new();
        let mut m = aad.to_vec();
        m.extend_from_slice(&(aad.len() as u64).to_le_bytes());
        m.extend_from_slice(pt);
        let d = fnv64(&m) ^ (fnv64(&crate::refmodel::prims::sha256(&m)) << 1);
        let mut l = l2.borrow_mut();
        l.seals += 1;
        let k = (key.to_vec(), nonce.to_vec());
        let prev = l.seen.get(&k).copied();
        match prev {
            Some(p) if p != d => {
                if l.reuse.is_none() {
                    l.reuse = Some(format!(
                        "seal #{}: (key {}.., nonce {}) already sealed a different message",
                        l.seals,
                        crate::hx::to_hex(&key[..4.min(key.len())]),
                        crate::hx::to_hex(nonce)
                    ));
                }
            }
            Some(_) => {}
            None => {
                l.seen.insert(k, d);
            }
        }
        let mut n8 = [0u8; 8];
        if nonce.len() == 12 {
            n8.copy_from_slice(&nonce[4..]);
        }
        trace.borrow_mut().push(Ev::Seal { key_tag: fnv64(key), nonce: u64::from_le_bytes(n8) });
    })));
    log
}

pub fn remove_seal_observer() {
    kestrel_crypto::verif::set_seal_observer(None);
}

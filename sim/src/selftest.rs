//! Setup-time validation of the trusted base: the reference model against RFC vectors,
//! the Noise vector, the repository's golden files, and the *pinned release* of
//! kestrel-crypto (registry copy, immutable). The working tree is deliberately not part
//! of this: disagreement between it and the reference is what the checks report.

use crate::hx::from_hex;
use crate::refmodel::{b64, format as rf, keyring as rk, noise as rn, prims as rp, scrypt as rs};
use crate::rng::Rng;

fn h(s: &str) -> Vec<u8> {
    from_hex(s).unwrap()
}

fn a32(v: &[u8]) -> [u8; 32] {
    let mut a = [0u8; 32];
    a.copy_from_slice(v);
    a
}

pub fn run(args: &[String]) -> i32 {
    let what = args.first().map(|s| s.as_str()).unwrap_or("all");
    let mut fails = 0;
    let mut check = |name: &str, ok: bool| {
        if ok {
            println!("selftest ok   {}", name);
        } else {
            println!("selftest FAIL {}", name);
            fails += 1;
        }
    };
    if what == "all" || what == "refmodel" {
        // RFC 7914 section 12
        check(
            "scrypt RFC7914 #1 (N=16,r=1,p=1)",
            rs::scrypt(b"", b"", 16, 1, 1, 64)
                == h("77d6576238657b203b19ca42c18a0497f16b4844e3074ae8dfdffa3fede21442fcd0069ded0948f8326a753a0fc81f17e8d3e0fb2e0d3628cf35e20c38d18906"),
        );
        check(
            "scrypt RFC7914 #2 (N=1024,r=8,p=16)",
            rs::scrypt(b"password", b"NaCl", 1024, 8, 16, 64)
                == h("fdbabe1c9d3472007856e7190d01e9fe7c6ad7cbc8237830e77376634b3731622eaf30d92e22a3886ff109279d9830dac727afb94a83ee6d8360cbdfa2cc0640"),
        );
        check(
            "scrypt RFC7914 #3 (N=16384,r=8,p=1)",
            rs::scrypt(b"pleaseletmein", b"SodiumChloride", 16384, 8, 1, 64)
                == h("7023bdcb3afd7348461c06cd81fd38ebfda8fbba904f8e3ea9b543f6545da1f2d5432955613f0fcf62d49705242a9af9e61e85dc0d651e40dfcf017b45575887"),
        );
        // RFC 4231 test case 2, RFC 5869 test case 1
        check(
            "HMAC RFC4231 #2",
            rp::hmac(b"Jefe", &[b"what do ya want for nothing?"]).to_vec() == h("5bdcc146bf60754e6a042426089575c75a003f089d2739839dec58b964ec3843"),
        );
        check(
            "HKDF RFC5869 #1",
            rp::hkdf(&h("000102030405060708090a0b0c"), &h("0b0b0b0b0b0b0b0b0b0b0b0b0b0b0b0b0b0b0b0b0b0b"), &h("f0f1f2f3f4f5f6f7f8f9"), 42)
                == h("3cb25f25faacd57a90434f64d0362f2a2d2d0a90cf1a5a4c5db02d56ecc4c5bf34007208d5b887185865"),
        );
        check(
            "HKDF RFC5869 #3 (empty salt and info)",
            rp::hkdf(&[], &h("0b0b0b0b0b0b0b0b0b0b0b0b0b0b0b0b0b0b0b0b0b0b"), &[], 42)
                == h("8da4e775a563c18f715f802a063c5a31b8a11f5c5ee1879ec3454e5f3c738d2d9d201395faa4b61a96c8"),
        );
        // RFC 7748 section 6.1
        let alice_sk = a32(&h("77076d0a7318a57d3c16c17251b26645df4c2f87ebc0992ab177fba51db92c2a"));
        let bob_pk = a32(&h("de9edb7d7b7dc1b4d35b61c2ece435373f8343c85b78674dadfc7e146f882b4f"));
        check(
            "X25519 RFC7748 6.1",
            rp::x25519(&alice_sk, &bob_pk).to_vec() == h("4a5d9d5ba4ce2de1728e3bf480350f25e07e21c947d19e3376f09b3c1e161742")
                && rp::x25519_base(&alice_sk).to_vec() == h("8520f0098930a754748b7ddcb43ef75a0dbf3a0d26381af4eba4a98eaa9b4e6a"),
        );
        // Noise_X_25519_ChaChaPoly_SHA256 vector (cacophony; also embedded in the repository's tests)
        let s_priv = a32(&h("e61ef9919cde45dd5f82166404bd08e38bceb5dfdfded0a34c8df7ed542214d1"));
        let e_priv = a32(&h("893e28b9dc6ca8d611ab664754b8ceb7bac5117349a4439a6b0569da977c464a"));
        let rs_pub = a32(&h("31e0303fd6418d2f8c0e78b91f22e8caed0fbe48656dcf4767e4834f701b8f62"));
        let w = rn::write_x(
            &h("50726f6c6f677565313233"),
            &s_priv,
            &rp::x25519_base(&s_priv),
            &e_priv,
            &rp::x25519_base(&e_priv),
            &rs_pub,
            &h("4c756477696720766f6e204d69736573"),
        );
        check(
            "Noise X vector (message and handshake hash)",
            w.message == h("ca35def5ae56cec33dc2036731ab14896bc4c75dbb07a61f879f8e3afa4c79446c15957a594079a5bdeae05d01e089fbb7cc6ea2ecfd209b941f73c9235213bc14ed87a1a4a0b164c11a5999be0f7bf1fdc3aaa6de60cb3c98302f370fdb03ea6fe2cf18324b0812663aed65fc9eafdf")
                && w.h.to_vec() == h("e5cdeb715c9553e966ccd446aff7f6df1556d0ecda39ddb49ef24c876fe249b7"),
        );
        // base64
        let mut rng = Rng::new(7);
        let mut ok = true;
        for n in 0..100 {
            let v = rng.bytes(n);
            ok &= b64::decode(&b64::encode(&v)) == Some(v);
        }
        ok &= b64::encode(b"foobar") == "Zm9vYmFy" && b64::encode(b"fooba") == "Zm9vYmE=" && b64::decode("Zm9vYmF=").is_none();
        check("base64 round trip and RFC4648 vectors", ok);
        // locked key vector from the repository's keyring tests, reproduced by the reference lock
        let sk = a32(&h("42d010ed1797fb3187351423f164caee1ce15eb5a462cf6194457b7a736938f5"));
        let salt = a32(&h("7329ff6c9e9d5eb8ace7c02663065915466c9b9401587339e45847034faa776e"));
        let locked = "ZWdrMHMp/2yenV64rOfAJmMGWRVGbJuUAVhzOeRYRwNPqndu4Pfkg4YXzIna9Eg58JwreHA37o49xCS0x8CWd3yRe+D2ytRXFLb67WNIwxqHJ9Fw";
        check("locked-key vector (lock, unlock, wrong password)", rk::lock(&sk, b"alice", &salt) == locked && rk::unlock(locked, b"alice") == Some(sk) && rk::unlock(locked, b"alicf").is_none());
        check(
            "public-key encoding vector",
            rk::encode_pk(&a32(&h("3ad53dc25581b18af543a1e8cf4edc2b4e4e483df5a7e0d5ada53e7e4bb86374"))) == "OtU9wlWBsYr1Q6Hoz07cK05OSD31p+DVraU+fku4Y3R62CZl"
                && rk::decode_pk("PtU9wlWBsYr1Q6Hoz07cK05OSD31p+DVraU+fku4Y3R62CZl").is_none(),
        );
        // golden files of the repository (durable state from an earlier release)
        let kr = std::fs::read_to_string("/repo/src/cli/tests/keyring.txt").unwrap_or_default();
        let entries = rk::parse(&kr);
        let mut gold_ok = false;
        if let Some(es) = &entries {
            if es.len() == 2 && es[0].name == "alice" && es[1].name == "bob" {
                let bob_sk = rk::unlock(es[1].private.as_ref().unwrap(), b"bob");
                let alice_pk = rk::decode_pk(&es[0].public);
                let bob_pk = rk::decode_pk(&es[1].public);
                if let (Some(bsk), Some(apk), Some(bpk)) = (bob_sk, alice_pk, bob_pk) {
                    let f = std::fs::read("/repo/src/cli/tests/data.txt.ktl").unwrap_or_default();
                    let v = rf::accept_key_file(&f, &bsk, &bpk);
                    gold_ok = rp::x25519_base(&bsk) == bpk && v.chunks.accepted() && v.chunks.plaintext() == b"plaintext." && v.sender == Some(apk);
                }
            }
        }
        check("golden key-mode file decrypts under the reference (keyring, unlock, Noise, chunks)", gold_ok);
        let f = std::fs::read("/repo/src/cli/tests/pdata.txt.ktl").unwrap_or_default();
        let v = rf::accept_pass_file(&f, &mut |salt| rs::product(b"pass123", salt));
        check("golden password-mode file decrypts under the reference", v.accepted() && v.plaintext() == b"plaintext.");
        // reference writer == pinned release, byte for byte, on seeded files; reference
        // acceptance == pinned release on seeded corruptions
        let mut ok = true;
        let mut n = 0;
        for i in 0..60u64 {
            let mut rng = Rng::new(1000 + i);
            let (s, r, e, p) = (rng.arr32(), rng.arr32(), rng.arr32(), rng.arr32());
            let len = [0usize, 1, 13, 300, 65535, 65536, 65537, 131072, 140000][(i % 9) as usize];
            let pt = rng.bytes(len);
            let sizes = crate::gen::full_chunking(len, 65536);
            let rfile = rf::write_key_file(
                &rf::KeyParams { s_priv: &s, s_pub_claimed: &rp::x25519_base(&s), e_priv: &e, e_pub: &rp::x25519_base(&e), recipient: &rp::x25519_base(&r), payload_key: &p },
                &pt,
                &sizes,
            );
            let pfile = pinned_key_encrypt(&s, &r, &e, &p, &pt);
            ok &= Some(&rfile) == pfile.as_ref();
            // one corruption per file: both must agree on accept/reject and on the plaintext
            let mut bad = rfile.clone();
            let off = rng.usize_below(bad.len());
            bad[off] ^= 1 << rng.below(8);
            let pv = pinned_key_decrypt(&r, &bad);
            let rv = rf::accept_key_file(&bad, &r, &rp::x25519_base(&r));
            ok &= pv.is_some() == rv.chunks.accepted();
            if let Some((ppt, psender)) = pv {
                ok &= ppt == rv.chunks.plaintext() && Some(a32(&psender)) == rv.sender;
            }
            let pv = pinned_key_decrypt(&r, &rfile);
            ok &= pv == Some((pt.clone(), rp::x25519_base(&s).to_vec()));
            n += 1;
        }
        check(&format!("reference writer/acceptance == pinned release on {} seeded key-mode files", n), ok);
        let mut ok = true;
        for i in 0..3u64 {
            let mut rng = Rng::new(2000 + i);
            let salt = rng.arr32();
            let pw = crate::gen::gen_password(&mut rng);
            let pt = rng.bytes(100 + i as usize);
            let key = rs::product(&pw, &salt);
            let rfile = rf::write_pass_file(&key, &salt, &pt, &crate::gen::full_chunking(pt.len(), 65536));
            let mut out = Vec::new();
            let r = kestrel_pinned::encrypt::pass_encrypt(&mut &pt[..], &mut out, &pw, salt, kestrel_pinned::PassFileFormat::V1);
            ok &= r.is_ok() && out == rfile;
            ok &= kestrel_pinned::scrypt(&pw, &salt, 32768, 8, 1, 32) == key.to_vec();
        }
        check("reference password-mode writer and scrypt == pinned release on 3 seeded files", ok);
    }
    if what == "all" || what == "tty" {
        // the controlling-terminal seam: passwords typed at the prompt give exactly what --env-pass gives
        use crate::cli::{run as crun, Invocation, Sandbox, Status};
        let sb = Sandbox::new("selftest-tty");
        sb.write("p.txt", b"typed passwords");
        let pw = "p\u{e4}ss w\u{f6}rd ~!  ";
        let mut a = Invocation::new(&["password", "encrypt", "p.txt", "-o", "a.ktl", "--env-pass"]).env("KESTREL_PASSWORD", pw);
        a.entropy_seed = Some(77);
        let mut b = a.clone();
        b.args[4] = b"b.ktl".to_vec();
        b.pass_via_tty = true;
        let (fa, fb) = (crun(&sb, &a), crun(&sb, &b));
        let same = fa.status == Status::Exit(0) && fb.status == Status::Exit(0) && sb.read("a.ktl").is_some() && sb.read("a.ktl") == sb.read("b.ktl");
        let mut d = Invocation::new(&["password", "decrypt", "b.ktl", "-o", "b.out", "--env-pass"]).env("KESTREL_PASSWORD", pw);
        d.pass_via_tty = true;
        let fd = crun(&sb, &d);
        let back = fd.status == Status::Exit(0) && sb.read("b.out").as_deref() == Some(&b"typed passwords"[..]);
        let mut w = Invocation::new(&["password", "decrypt", "b.ktl", "-o", "w.out", "--env-pass"]).env("KESTREL_PASSWORD", "p\u{e4}ss w\u{f6}rd ~!");
        w.pass_via_tty = true;
        let fw = crun(&sb, &w);
        let wrong = fw.status == Status::Exit(1) && sb.read("w.out").is_none();
        // without a terminal and without --env-pass the tool must fail at once (it never blocks)
        let n = crun(&sb, &Invocation::new(&["password", "decrypt", "b.ktl", "-o", "n.out"]));
        check("controlling-terminal seam: typed password == --env-pass (byte-identical file, round trip, wrong password refused)", same && back && wrong && n.status == Status::Exit(1));
    }
    if what == "all" {
        // one-off searches that the checks would otherwise repeat (kept under build/cache)
        #[cfg(feature = "keyring")]
        crate::fam::a9::warm_caches();
        println!("selftest ok   caches warmed");
    }
    if what == "determinism" {
        // ksim selftest determinism [family] [count]: every base scenario twice, hashes must agree
        let only = args.get(1).cloned();
        let count: u64 = args.get(2).and_then(|c| c.parse().ok()).unwrap_or(200);
        let seed: u64 = std::env::var("VERIF_SEED").ok().and_then(|s| s.parse().ok()).unwrap_or(crate::DEFAULT_SEED);
        for f in crate::families() {
            if only.as_deref().map(|o| o != f.name() && o != "all").unwrap_or(false) {
                continue;
            }
            let mut bad = 0;
            // process-level families cost ~0.1 s per invocation: a third of the slice
            let count = if f.name().starts_with('b') { (count / 3).max(2) } else { count };
            for idx in 0..count {
                let a = f.run_index(seed, crate::engine::Tier::Quick, idx);
                let b = f.run_index(seed, crate::engine::Tier::Quick, idx);
                for (k, (x, y)) in a.iter().zip(b.iter()).enumerate() {
                    if x.1 != y.1 && bad < 3 {
                        bad += 1;
                        println!("NONDETERMINISTIC family {} run_index {} sub {}: {:016x} vs {:016x}\n  scenario {}", f.name(), idx, k, x.1, y.1, x.0);
                    }
                }
                if a.len() != b.len() {
                    bad += 1;
                    println!("NONDETERMINISTIC family {} run_index {}: {} vs {} executions", f.name(), idx, a.len(), b.len());
                }
            }
            check(&format!("determinism of family {} over {} base scenarios run twice", f.name(), count), bad == 0);
        }
    }
    if fails > 0 {
        eprintln!("harness error: {} selftest(s) failed: the trusted base is not trustworthy", fails);
        return 2;
    }
    0
}

pub fn pinned_key_encrypt(s: &[u8; 32], r: &[u8; 32], e: &[u8; 32], p: &[u8; 32], pt: &[u8]) -> Option<Vec<u8>> {
    use kestrel_pinned::{PayloadKey, PrivateKey, PublicKey};
    let sk = PrivateKey::try_from(&s[..]).ok()?;
    let spk = sk.to_public().ok()?;
    let rpk = PublicKey::try_from(&rp::x25519_base(r)[..]).ok()?;
    let ek = PrivateKey::try_from(&e[..]).ok()?;
    let epk = ek.to_public().ok()?;
    let pk = PayloadKey::new(p);
    let mut out = Vec::new();
    kestrel_pinned::encrypt::key_encrypt(&mut &pt[..], &mut out, &sk, &spk, &rpk, Some(&ek), Some(&epk), Some(&pk), kestrel_pinned::AsymFileFormat::V1).ok()?;
    Some(out)
}

pub fn pinned_key_decrypt(r: &[u8; 32], f: &[u8]) -> Option<(Vec<u8>, Vec<u8>)> {
    use kestrel_pinned::{PrivateKey, PublicKey};
    let rk = PrivateKey::try_from(&r[..]).ok()?;
    let rpk = PublicKey::try_from(&rp::x25519_base(r)[..]).ok()?;
    let mut out = Vec::new();
    let pk = kestrel_pinned::decrypt::key_decrypt(&mut &f[..], &mut out, &rk, &rpk, kestrel_pinned::AsymFileFormat::V1).ok()?;
    Some((out, pk.as_bytes().to_vec()))
}

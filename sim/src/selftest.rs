//! Setup-time validation of the trusted base (reference model) and of determinism.
pub fn run(_args: &[String]) -> i32 {
    0
}

// Family m1 (C20): key containers whose last owners are dropped CONCURRENTLY on two threads.
// Runs the real kestrel-crypto (and the real std::sync primitives a change might introduce, e.g. Arc)
// under Miri, whose interpreter owns the thread scheduler: with -Zmiri-seed=<s> the choice of which thread
// runs after every basic block is a pure function of <s>, so one seed is one exactly repeatable interleaving.
// Oracle: a global allocator that scans every heap block at deallocation time for the watched secret, and a
// scan of the containers' own bytes after drop_in_place.  Exit 0 = held, 1 = violation (line on stdout).
use std::alloc::{GlobalAlloc, Layout, System};
use std::mem::ManuallyDrop;
use std::sync::atomic::{AtomicBool, AtomicUsize, Ordering};
use std::sync::Barrier;

use kestrel_crypto::{PayloadKey, PrivateKey};
use zeroize::Zeroize;

static ARMED: AtomicBool = AtomicBool::new(false);
static LEAKED_BLOCKS: AtomicUsize = AtomicUsize::new(0);
static FREES_SEEN: AtomicUsize = AtomicUsize::new(0);
static WATCHED_FREES: AtomicUsize = AtomicUsize::new(0);
static ORDER: AtomicUsize = AtomicUsize::new(0);
static SIG: AtomicUsize = AtomicUsize::new(0);
static THREAD_INLINE_LEAKS: AtomicUsize = AtomicUsize::new(0);
static INLINE_CHECKED: AtomicUsize = AtomicUsize::new(0);
static mut SECRET: [u8; 32] = [0; 32];

const MAXW: usize = 8;
static WATCH: [AtomicUsize; MAXW] = [const { AtomicUsize::new(0) }; MAXW];

/// the 32 bytes at `a` (known to be initialised: they were written as key bytes) still hold key material:
/// any 8 bytes equal to the secret at the same offset count, so a partial wipe is still a leak
fn holds_secret(a: usize) -> bool {
    let s = unsafe { &*std::ptr::addr_of!(SECRET) };
    let b = unsafe { std::ptr::read_volatile(a as *const [u8; 32]) };
    (0..=24).any(|k| b[k..k + 8] == s[k..k + 8])
}

/// a block is given up: inspect the watched key bytes inside it, then stop watching them (the address may be reused)
fn released(p: *mut u8, n: usize) {
    if !ARMED.load(Ordering::SeqCst) {
        return;
    }
    FREES_SEEN.fetch_add(1, Ordering::SeqCst);
    let lo = p as usize;
    for w in WATCH.iter() {
        let a = w.load(Ordering::SeqCst);
        if a != 0 && lo <= a && a + 32 <= lo + n && w.compare_exchange(a, 0, Ordering::SeqCst, Ordering::SeqCst).is_ok() {
            WATCHED_FREES.fetch_add(1, Ordering::SeqCst);
            if holds_secret(a) {
                LEAKED_BLOCKS.fetch_add(1, Ordering::SeqCst);
            }
        }
    }
}

struct Watch;
unsafe impl GlobalAlloc for Watch {
    unsafe fn alloc(&self, l: Layout) -> *mut u8 {
        System.alloc(l)
    }
    unsafe fn dealloc(&self, p: *mut u8, l: Layout) {
        released(p, l.size());
        System.dealloc(p, l)
    }
    unsafe fn realloc(&self, p: *mut u8, l: Layout, n: usize) -> *mut u8 {
        // always move: the old block is given up like a freed one
        let q = System.alloc(Layout::from_size_align_unchecked(n, l.align()));
        if !q.is_null() {
            std::ptr::copy_nonoverlapping(p, q, l.size().min(n));
            released(p, l.size());
            System.dealloc(p, l);
        }
        q
    }
}
#[global_allocator]
static A: Watch = Watch;

trait Keyed {
    fn secret_addr(&self) -> usize;
}
impl Keyed for PayloadKey {
    fn secret_addr(&self) -> usize {
        self.as_bytes().as_ptr() as usize
    }
}
impl Keyed for PrivateKey {
    fn secret_addr(&self) -> usize {
        self.as_bytes().as_ptr() as usize
    }
}

/// interleaving measure: the global order in which the threads began and ended their actions, folded into SIG
struct Ticket(usize, usize);
impl Drop for Ticket {
    fn drop(&mut self) {
        let t1 = ORDER.fetch_add(1, Ordering::SeqCst);
        let h = (self.0 as u64 + 1).wrapping_mul(0x9E3779B97F4A7C15) ^ (self.1 as u64).wrapping_mul(0xBF58476D1CE4E5B9) ^ (t1 as u64).wrapping_mul(0x94D049BB133111EB);
        SIG.fetch_add(h as usize, Ordering::SeqCst); // commutative: independent of which thread folds first
    }
}

struct Slot<T>(std::cell::UnsafeCell<ManuallyDrop<T>>);
unsafe impl<T> Sync for Slot<T> {}

fn splitmix(x: &mut u64) -> u64 {
    *x = x.wrapping_add(0x9E3779B97F4A7C15);
    let mut z = *x;
    z = (z ^ (z >> 30)).wrapping_mul(0xBF58476D1CE4E5B9);
    z = (z ^ (z >> 27)).wrapping_mul(0x94D049BB133111EB);
    z ^ (z >> 31)
}

/// drop `owners` values (an original and its clones, clones of clones) on `owners` threads at once
fn round<T: Send + Sync + Clone + Keyed + Zeroize>(make: &dyn Fn() -> T, owners: usize, chain: bool, actions: [u8; 3], what: &str, seed: u64) -> Result<(), String> {
    let first = make();
    // the secret to look for is whatever the container holds (generated keys included)
    let sec = unsafe { std::ptr::read_volatile(first.secret_addr() as *const [u8; 32]) };
    if sec.windows(8).any(|w| w.iter().all(|b| *b == 0)) {
        return Ok(()); // a secret with 8 zero bytes in a row cannot be told from an erased one
    }
    unsafe { *std::ptr::addr_of_mut!(SECRET) = sec };
    let mut vals: Vec<T> = Vec::with_capacity(owners);
    for i in 1..owners {
        let c = if chain && i > 1 { vals[i - 2].clone() } else { first.clone() };
        vals.push(c);
    }
    vals.insert(0, first);
    // containers live in heap slots and are dropped in place: no move leaves a stale copy behind
    let slots: Vec<Slot<T>> = vals.into_iter().map(|v| Slot(std::cell::UnsafeCell::new(ManuallyDrop::new(v)))).collect();
    // watch the distinct places where the owners keep the secret (shared buffers count once)
    let mut addrs: Vec<usize> = slots.iter().map(|s| unsafe { (&*s.0.get()).secret_addr() }).collect();
    addrs.sort();
    addrs.dedup();
    for (w, a) in WATCH.iter().zip(addrs.iter()) {
        w.store(*a, Ordering::SeqCst);
    }
    let gate = Barrier::new(owners);
    ARMED.store(true, Ordering::SeqCst);
    std::thread::scope(|s| {
        for (i, slot) in slots.iter().enumerate() {
            let gate = &gate;
            let action = actions[i % 3];
            s.spawn(move || {
                gate.wait();
                let t0 = ORDER.fetch_add(1, Ordering::SeqCst);
                let _end = Ticket(i, t0);
                let me = unsafe { &mut *slot.0.get() };
                match action {
                    // explicit zeroize() first, then the drop
                    1 => {
                        me.zeroize();
                        unsafe { ManuallyDrop::drop(me) };
                    }
                    // a further clone made while the other owners are going away; both dropped here
                    2 => {
                        let mut c = Box::new(ManuallyDrop::new((**me).clone()));
                        let a = c.secret_addr();
                        let lo = &*c as *const ManuallyDrop<T> as usize;
                        let inline = lo <= a && a + 32 <= lo + std::mem::size_of::<T>();
                        if !inline && !WATCH.iter().any(|w| w.load(Ordering::SeqCst) == a) {
                            for w in WATCH.iter() {
                                if w.compare_exchange(0, a, Ordering::SeqCst, Ordering::SeqCst).is_ok() {
                                    break;
                                }
                            }
                        }
                        unsafe { ManuallyDrop::drop(me) };
                        unsafe { ManuallyDrop::drop(&mut *c) };
                        if inline {
                            INLINE_CHECKED.fetch_add(1, Ordering::SeqCst);
                            if holds_secret(a) {
                                THREAD_INLINE_LEAKS.fetch_add(1, Ordering::SeqCst);
                            }
                        }
                    }
                    _ => unsafe { ManuallyDrop::drop(me) },
                }
            });
        }
    });
    ARMED.store(false, Ordering::SeqCst);
    let leaked = LEAKED_BLOCKS.swap(0, Ordering::SeqCst);
    // secrets kept inline are not in a released block: look at them where they are, inside the dropped containers
    let mut in_container = THREAD_INLINE_LEAKS.swap(0, Ordering::SeqCst);
    for w in WATCH.iter() {
        let a = w.swap(0, Ordering::SeqCst);
        let inline = slots.iter().any(|s| {
            let lo = s.0.get() as usize;
            a != 0 && lo <= a && a + 32 <= lo + std::mem::size_of::<T>()
        });
        if inline {
            INLINE_CHECKED.fetch_add(1, Ordering::SeqCst);
            if holds_secret(a) {
                in_container += 1;
            }
        }
    }
    if leaked > 0 || in_container > 0 {
        return Err(format!(
            "{what}: {owners} owners dropped on {owners} threads (chain={chain}, actions={actions:?}, seed={seed}): heap blocks released with key bytes in them: {leaked}; dropped containers still holding key bytes: {in_container}"
        ));
    }
    Ok(())
}

fn main() {
    let args: Vec<String> = std::env::args().collect();
    let seed: u64 = args.get(1).and_then(|s| s.parse().ok()).unwrap_or(1);
    let rounds: usize = args.get(2).and_then(|s| s.parse().ok()).unwrap_or(6);
    let mut st = seed;
    let mut secret = [0u8; 32];
    for c in secret.chunks_mut(8) {
        c.copy_from_slice(&splitmix(&mut st).to_le_bytes());
    }
    for b in secret.iter_mut() {
        if *b == 0 {
            *b = 0x5a;
        }
    }
    unsafe { *std::ptr::addr_of_mut!(SECRET) = secret };
    let mut viol = 0;
    let mut n = 0;
    for r in 0..rounds {
        let owners = 2 + (splitmix(&mut st) % 2) as usize;
        let chain = splitmix(&mut st) % 2 == 0;
        // what each thread does with its owner: 0 drop, 1 zeroize() then drop, 2 clone, drop both
        let a = splitmix(&mut st);
        let actions = if r < 2 { [0, 0, 0] } else { [(a % 3) as u8, ((a >> 8) % 3) as u8, ((a >> 16) % 3) as u8] };
        let res = match r % 3 {
            0 => round(&|| PayloadKey::new(&secret), owners, chain, actions, "PayloadKey::new", seed),
            1 => round(&|| PrivateKey::try_from(&secret[..]).unwrap(), owners, chain, actions, "PrivateKey::try_from", seed),
            _ => round(&|| PrivateKey::generate(), owners, chain, actions, "PrivateKey::generate", seed),
        };
        n += 1;
        if let Err(e) = res {
            println!("M1-VIOLATION {e}");
            viol += 1;
        }
    }
    println!("M1-STATS seed={seed} rounds={n} frees_seen={} watched_blocks_released={} inline_secrets_inspected={} order_sig={} violations={viol}", FREES_SEEN.load(Ordering::SeqCst), WATCHED_FREES.load(Ordering::SeqCst), INLINE_CHECKED.load(Ordering::SeqCst), SIG.load(Ordering::SeqCst) % 1_000_000_007);
    std::process::exit(if viol > 0 { 1 } else { 0 });
}

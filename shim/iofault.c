// LD_PRELOAD shim: decides the result of the child's read/write/open system calls.
//
// KSIM_FAULT_PLAN = rule;rule;...   rule = <class>:<op>:<k>:<action>
//   class  in | out | err | f=<basename> (fd 0, fd 1, fd 2, descriptors opened on a path with that basename)
//   op     r | w | o                    (read, write, open)
//   k      call index among the calls of that (class, op), 0-based, or * for every call
//   action E<errno>                     fail with that errno
//          C<n>                         cap the transfer to n bytes (short read / partial write)
// KSIM_FAULT_LOG  = file to which one line per intercepted call of a planned class is appended.
// stderr (fd 2) is only touched by rules of class `err`. The shim uses raw syscalls for its own I/O.
#define _GNU_SOURCE
#include <dlfcn.h>
#include <errno.h>
#include <fcntl.h>
#include <stdarg.h>
#include <stdio.h>
#include <stdlib.h>
#include <string.h>
#include <sys/syscall.h>
#include <sys/types.h>
#include <unistd.h>

#define MAXR 32
#define MAXFD 256

struct rule { char cls[64]; char op; long k; char act; long arg; };
static struct rule rules[MAXR];
static int nrules = -1;
static char fdname[MAXFD][64];
static long counters[MAXR];
static int logfd = -2;

static void raw_log(const char *s) {
    if (logfd == -2) {
        const char *p = getenv("KSIM_FAULT_LOG");
        logfd = p ? (int)syscall(SYS_open, p, O_WRONLY | O_CREAT | O_APPEND | O_CLOEXEC, 0644) : -1;
    }
    if (logfd >= 0) syscall(SYS_write, logfd, s, strlen(s));
}

static void load(void) {
    if (nrules >= 0) return;
    nrules = 0;
    const char *p = getenv("KSIM_FAULT_PLAN");
    if (!p) return;
    char buf[2048];
    strncpy(buf, p, sizeof buf - 1);
    buf[sizeof buf - 1] = 0;
    char *save = NULL;
    for (char *tok = strtok_r(buf, ";", &save); tok && nrules < MAXR; tok = strtok_r(NULL, ";", &save)) {
        struct rule *r = &rules[nrules];
        char cls[64], op, kbuf[32], act[32];
        if (sscanf(tok, "%63[^:]:%c:%31[^:]:%31s", cls, &op, kbuf, act) != 4) continue;
        strcpy(r->cls, cls);
        r->op = op;
        r->k = (kbuf[0] == '*') ? -1 : atol(kbuf);
        r->act = act[0];
        r->arg = atol(act + 1);
        nrules++;
    }
}

static const char *base(const char *path) {
    const char *b = strrchr(path, '/');
    return b ? b + 1 : path;
}

static const char *cls_of_fd(int fd, char *tmp) {
    if (fd == 0) return "in";
    if (fd == 1) return "out";
    if (fd == 2) return "err";
    if (fd > 2 && fd < MAXFD && fdname[fd][0]) {
        snprintf(tmp, 80, "f=%s", fdname[fd]);
        return tmp;
    }
    return NULL;
}

// returns 0 = pass through, 1 = fail with *err, 2 = cap to *cap
static int decide(const char *cls, char op, int *err, long *cap) {
    load();
    int res = 0;
    // one counter per (class, op): rules sharing them must see the same index
    long idx = -1;
    for (int i = 0; i < nrules; i++) {
        if (rules[i].op != op || strcmp(rules[i].cls, cls) != 0) continue;
        if (idx < 0) {
            // find the first rule of this (class, op): it owns the counter
            int owner = i;
            idx = counters[owner]++;
            for (int j = i + 1; j < nrules; j++)
                if (rules[j].op == op && strcmp(rules[j].cls, cls) == 0) counters[j] = counters[owner];
        }
        if (rules[i].k != -1 && rules[i].k != idx) continue;
        if (rules[i].act == 'E' && res != 1) { *err = (int)rules[i].arg; res = 1; }
        if (rules[i].act == 'C' && res == 0) { *cap = rules[i].arg; res = 2; }
    }
    return res;
}

static int planned(const char *cls) {
    load();
    for (int i = 0; i < nrules; i++) if (strcmp(rules[i].cls, cls) == 0) return 1;
    return 0;
}

ssize_t read(int fd, void *buf, size_t n) {
    char tmp[96];
    const char *cls = cls_of_fd(fd, tmp);
    if (cls && planned(cls)) {
        int err = 0; long cap = 0;
        int d = decide(cls, 'r', &err, &cap);
        char line[200];
        if (d == 1) {
            snprintf(line, sizeof line, "r %s req=%zu inject errno=%d\n", cls, n, err);
            raw_log(line);
            errno = err;
            return -1;
        }
        if (d == 2 && cap > 0 && (size_t)cap < n) n = (size_t)cap;
        ssize_t r = syscall(SYS_read, fd, buf, n);
        snprintf(line, sizeof line, "r %s req=%zu ret=%zd%s\n", cls, n, r, d == 2 ? " capped" : "");
        raw_log(line);
        return r;
    }
    return syscall(SYS_read, fd, buf, n);
}

ssize_t write(int fd, const void *buf, size_t n) {
    char tmp[96];
    const char *cls = cls_of_fd(fd, tmp);
    if (cls && planned(cls)) {
        int err = 0; long cap = 0;
        int d = decide(cls, 'w', &err, &cap);
        char line[200];
        if (d == 1) {
            snprintf(line, sizeof line, "w %s req=%zu inject errno=%d\n", cls, n, err);
            raw_log(line);
            errno = err;
            return -1;
        }
        if (d == 2 && cap > 0 && (size_t)cap < n) n = (size_t)cap;
        ssize_t r = syscall(SYS_write, fd, buf, n);
        snprintf(line, sizeof line, "w %s req=%zu ret=%zd%s\n", cls, n, r, d == 2 ? " capped" : "");
        raw_log(line);
        return r;
    }
    return syscall(SYS_write, fd, buf, n);
}

static int do_open(int dirfd, const char *path, int flags, mode_t mode) {
    char cls[96];
    snprintf(cls, sizeof cls, "f=%s", base(path));
    if (planned(cls)) {
        int err = 0; long cap = 0;
        int d = decide(cls, 'o', &err, &cap);
        char line[240];
        if (d == 1) {
            snprintf(line, sizeof line, "o %s flags=%d inject errno=%d\n", cls, flags, err);
            raw_log(line);
            errno = err;
            return -1;
        }
        int fd = (int)syscall(SYS_openat, dirfd, path, flags, mode);
        snprintf(line, sizeof line, "o %s flags=%d%s ret=%d\n", cls, flags & O_ACCMODE, (flags & O_TRUNC) ? " trunc" : "", fd < 0 ? -1 : 0);
        raw_log(line);
        if (fd > 2 && fd < MAXFD) { strncpy(fdname[fd], base(path), 63); fdname[fd][63] = 0; }
        return fd;
    }
    int fd = (int)syscall(SYS_openat, dirfd, path, flags, mode);
    if (fd > 2 && fd < MAXFD) fdname[fd][0] = 0;
    return fd;
}

int open(const char *path, int flags, ...) {
    mode_t mode = 0;
    if (flags & (O_CREAT | O_TMPFILE)) { va_list ap; va_start(ap, flags); mode = va_arg(ap, mode_t); va_end(ap); }
    return do_open(AT_FDCWD, path, flags, mode);
}
int open64(const char *path, int flags, ...) {
    mode_t mode = 0;
    if (flags & (O_CREAT | O_TMPFILE)) { va_list ap; va_start(ap, flags); mode = va_arg(ap, mode_t); va_end(ap); }
    return do_open(AT_FDCWD, path, flags | O_LARGEFILE, mode);
}
int openat(int dirfd, const char *path, int flags, ...) {
    mode_t mode = 0;
    if (flags & (O_CREAT | O_TMPFILE)) { va_list ap; va_start(ap, flags); mode = va_arg(ap, mode_t); va_end(ap); }
    return do_open(dirfd, path, flags, mode);
}
int openat64(int dirfd, const char *path, int flags, ...) {
    mode_t mode = 0;
    if (flags & (O_CREAT | O_TMPFILE)) { va_list ap; va_start(ap, flags); mode = va_arg(ap, mode_t); va_end(ap); }
    return do_open(dirfd, path, flags | O_LARGEFILE, mode);
}
int close(int fd) {
    if (fd > 2 && fd < MAXFD) fdname[fd][0] = 0;
    return (int)syscall(SYS_close, fd);
}
